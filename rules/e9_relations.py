"""E9 - the Bar-Natan relation tables are identities of the Frobenius algebra the property names.

A = Z[h,t][X] / (X^2 - hX - t),  Y := X - h  (so XY = t, Y^2 = -hY + t),  a handle is X + Y,
counit eps(1) = 0, eps(X) = 1, degrees: X, Y, handle: -2; h: -2; t: -4.
The value of a component with genus g, x X-dots and y Y-dots is V(g,x,y) = X^x Y^y (X+Y)^g in A.

The tables are read from the MIR decision trees of the functions that encode them (dtree.py), and
checked by exact polynomial arithmetic on the finite grid closed x g in 0..3 x x,y in 0..4:

  R1  every rewriting step of CobComp::part_eval::eval is an identity in A
      (neck cutting, XY = t, X^2 = hX + t, Y^2 = -hY + t); closed: eps = 1 / 0 exactly where the
      unit / zero arms fire; the normal-form arm keeps (x, y), only fires at genus 0 and never for
      a closed component (nothing is lost, nothing gets stuck)
  R2  every step is homogeneous for the grading above (C05)
  R4  should_part_eval(c)  <=>  eval's first step on c is not the normal-form arm
  R5  is_zero_cob(c) => the full evaluation of c is 0;  is_unit_cob(c) => it is 1
  R6  delooping: labels carry (birth, death) dots X:(X, none), 1:(none, Y) - a dual basis:
      eps(death_i * birth_j) = delta_ij and sum birth_i (x) death_i is the neck-cutting element;
      incoming edges are capped (Bottom::Tgt) with the death dot and outgoing edges cupped
      (Bottom::Src) with the birth dot; a based circle keeps only the X label; cycles
      (BuildElem::deloop) are capped with the same death dots under the same labels (C06)
Most tests run at h = t = 0, where every `* h` / `* t` term vanishes: a wrong coefficient, sign
or exponent in these tables is invisible to them.
"""
import re
from symex import SymEx, show, strip
from dtree import DTree, Stuck

# ---- polynomials in h, t : dict {(i, j): int};  elements of A: (a, b) meaning a + b X


def P(c=0, i=0, j=0):
    return {(i, j): c} if c else {}


def padd(p, q):
    r = dict(p)
    for k, v in q.items():
        r[k] = r.get(k, 0) + v
        if r[k] == 0:
            del r[k]
    return r


def pmul(p, q):
    r = {}
    for (a, b), v in p.items():
        for (c, d), w in q.items():
            k = (a + c, b + d)
            r[k] = r.get(k, 0) + v * w
            if r[k] == 0:
                del r[k]
    return r


def pneg(p):
    return {k: -v for k, v in p.items()}


H, T_, ONE = P(1, 1, 0), P(1, 0, 1), P(1)


def amul(u, v):
    (a, b), (c, d) = u, v
    # (a + bX)(c + dX) = ac + (ad + bc) X + bd X^2,  X^2 = hX + t
    bd = pmul(b, d)
    return (padd(pmul(a, c), pmul(bd, T_)), padd(padd(pmul(a, d), pmul(b, c)), pmul(bd, H)))


def aadd(u, v):
    return (padd(u[0], v[0]), padd(u[1], v[1]))


def ascale(p, u):
    return (pmul(p, u[0]), pmul(p, u[1]))


AX = ({}, ONE)
AY = (pneg(H), ONE)
AH = aadd(AX, AY)
A1 = (ONE, {})


def apow(u, n):
    r = A1
    for _ in range(n):
        r = amul(r, u)
    return r


def V(g, x, y):
    return amul(amul(apow(AX, x), apow(AY, y)), apow(AH, g))


def eps(u):
    return u[1]


def pdeg(p):
    """set of degrees of the monomials of p (h: -2, t: -4)"""
    return {-2 * i - 4 * j for (i, j) in p}


def pshow(p):
    if not p:
        return '0'
    return ' + '.join('%s%s%s' % (v if (v != 1 or (i, j) == (0, 0)) else '', 'h^%d' % i if i else '', 't^%d' % j if j else '') for (i, j), v in sorted(p.items()))


def sk(t):
    return re.sub(r'#(?:i\d+:)?\d+\.\d+', '', show(t))


EVAL = 'yui_kh::kh::internal::v2::cob::CobComp::part_eval::eval'
COBCOMP = 'yui_kh::kh::internal::v2::cob::CobComp'


def rule_of(t):
    """eval's result term -> list of items ('rec', coef_poly, G, X, Y) | ('unit',) | ('zero',) | ('normal', genus, X, Y)"""
    t = strip(t) if t[0] in ('ref', 'deref') else t
    if t[0] == 'call':
        n = t[1]
        if n == EVAL:
            return [('rec', ONE, t[2][1], t[2][2], t[2][3])]
        if _is_add(n) and len(t[2]) == 2:
            return rule_of(t[2][0]) + rule_of(t[2][1])
        if (n.endswith('ops::Mul::mul') or (n.endswith('>::mul') and 'std::ops::Mul' in n)) and len(t[2]) == 2:
            inner = rule_of(t[2][0])
            c = coef_of(t[2][1])
            out = []
            for it in inner:
                if it[0] != 'rec':
                    raise Stuck('coefficient applied to a non-recursive term')
                out.append(('rec', pmul(it[1], c), it[2], it[3], it[4]))
            return out
        if n.endswith('::zero') and 'Zero' in n and not t[2]:
            return [('zero',)]
        if _is_from(n) and len(t[2]) == 1:
            a = t[2][0]
            if a[0] == 'call' and a[1].endswith('cob::Cob::empty'):
                return [('unit',)]
            if a[0] == 'call' and _is_from(a[1]) and len(a[2]) == 1 and strip(a[2][0]) == ('arg', 1):
                # the component eval was called for, with the genus and dots it came with - not those of this state
                return [('orig',)]
            if a[0] == 'call' and _is_from(a[1]) and a[2][0][0] == 'adt' and a[2][0][1] == COBCOMP:
                d = dict(zip(a[2][0][3], a[2][0][4]))
                dots = d['dots']
                if dots[0] != 'tuple':
                    raise Stuck('dots of the normal form are not a literal pair')
                return [('normal', d['genus'], dots[1][0], dots[1][1])]
    raise Stuck('unrecognised result of eval: ' + sk(t)[:100])


def _is_from(n):
    return n.endswith('convert::From::from') or (n.endswith('>::from') and 'std::convert::From<' in n)


def _is_add(n):
    return n.endswith('ops::Add::add') or (n.endswith('>::add') and 'std::ops::Add' in n)


def coef_of(t):
    t = strip(t)
    if t == ('arg', 5):
        return H
    if t == ('arg', 6):
        return T_
    if t[0] == 'call' and t[1].endswith('ops::Neg::neg') and len(t[2]) == 1:
        return pneg(coef_of(t[2][0]))
    raise Stuck('unrecognised coefficient ' + sk(t))


def cob_atom(closed, g, x, y):
    """atom hook for folding CobComp predicates at a grid point"""
    def atom(t, ev):
        s = t
        while s[0] in ('ref', 'deref'):
            s = s[1]
        if s[0] == 'call' and s[1].endswith('cob::CobComp::is_closed'):
            return (int(closed),)
        if s[0] == 'field' and s[1] == ('deref', ('arg', 1)) or (s[0] == 'field' and s[1] == ('arg', 1)):
            if s[2] == 'genus':
                return (g,)
            if s[2] == 'dots':
                return ((x, y),)
        if s[0] == 'field' and s[2] in ('0', '1') and s[1][0] == 'field' and s[1][2] == 'dots':
            return ((x, y)[int(s[2])],)
        return None
    return atom


def eval_atom(closed):
    def atom(t, ev):
        s = t
        while s[0] in ('ref', 'deref'):
            s = s[1]
        if s[0] == 'call' and s[1].endswith('cob::CobComp::is_closed'):
            return (int(closed),)
        return None
    return atom


def find_eval(facts):
    """the relation table: the self-recursive function under CobComp::part_eval with parameters (c, g, x, y, h, t) - a
    nested fn, a private method, whatever it is called"""
    global EVAL
    root = facts.bodies.get('yui_kh::kh::internal::v2::cob::CobComp::part_eval')
    if root is None:
        return None
    seen, todo = set(), [root]
    for _ in range(3):
        nxt = []
        for b in todo:
            for c in b.calls():
                t = facts.bodies.get(c.callee or '')
                if t is None or t.defp in seen or '::cob::' not in t.defp:
                    continue
                seen.add(t.defp)
                if any((c2.callee or '') == t.defp for c2 in t.calls()):
                    names = [t.local_name(k) for k in range(1, t.arg_count + 1)]
                    if t.arg_count == 6 and names[1:] == ['g', 'x', 'y', 'h', 't']:
                        EVAL = t.defp
                        import symex
                        symex.NO_INLINE.add(EVAL)
                        return t
                nxt.append(t)
        todo = nxt
    return None


def check_part_eval(facts, rep):
    dt = DTree(facts)
    if find_eval(facts) is None or EVAL not in facts.bodies:
        rep.indet('E9: the relation table (a self-recursive function (c, g, x, y, h, t) under CobComp::part_eval) not found')
        return
    rep.saw(facts.bodies[EVAL])
    npts = 0
    arms = {}
    where = facts.bodies[EVAL].where()
    # states that a recursive call can produce (as opposed to the state eval is entered with)
    rec_targets = set()
    for closed in (0, 1):
        for g in range(4):
            for x in range(5):
                for y in range(5):
                    args = {2: g, 3: x, 4: y}
                    try:
                        _, p0 = dt.decide_paths(dt.paths(EVAL), args, eval_atom(closed), what='eval', want_ret=False)
                        for it in rule_of(p0.ret):
                            if it[0] == 'rec':
                                rec_targets.add((closed,) + tuple(dt.ev(z, args, eval_atom(closed)) for z in it[2:5]))
                    except Stuck:
                        pass
    for closed in (0, 1):
        for g in range(4):
            for x in range(5):
                for y in range(5):
                    npts += 1
                    args = {2: g, 3: x, 4: y}
                    try:
                        # fold only the conditions: pick the matching path, then read its rule symbolically
                        chosen = None
                        for conds, ret, p in dt.paths(EVAL):
                            ok = True
                            for term, value, alts in conds:
                                v = dt.ev(term, args, eval_atom(closed))
                                if value == 'else':
                                    if alts is not None and v in alts:
                                        ok = False
                                        break
                                elif v != value:
                                    ok = False
                                    break
                            if ok:
                                chosen = (ret, p)
                                break
                        if chosen is None:
                            raise Stuck('no arm matches (closed=%d, g=%d, x=%d, y=%d)' % (closed, g, x, y))
                        rule = rule_of(chosen[0])
                    except Stuck as e:
                        rep.indet('E9: part_eval::eval outside the recognised fragment: %s' % e)
                        return None
                    lhs = V(g, x, y)
                    lhs_deg = -2 * (g + x + y)
                    kind = rule[0][0]
                    key = (closed, kind) + tuple(sk(chosen[0]) for _ in [0])
                    pt = 'closed=%d g=%d x=%d y=%d' % (closed, g, x, y)
                    arm = re.sub(r'\s+', ' ', sk(chosen[0]))[:90]
                    rec = arms.setdefault(arm, {'points': 0, 'bad': None})
                    rec['points'] += 1
                    if kind == 'rec':
                        rhs = ({}, {})
                        degs = set()
                        for (_, c, G, X, Y) in rule:
                            gg, xx, yy = dt.ev(G, args, eval_atom(closed)), dt.ev(X, args, eval_atom(closed)), dt.ev(Y, args, eval_atom(closed))
                            if min(gg, xx, yy) < 0:
                                rec['bad'] = rec['bad'] or ('R1', '%s: recursive call with a negative index (%d,%d,%d)' % (pt, gg, xx, yy))
                                continue
                            rhs = aadd(rhs, ascale(c, V(gg, xx, yy)))
                            degs |= {d + -2 * (gg + xx + yy) for d in pdeg(c)}
                        if rhs != lhs:
                            rec['bad'] = rec['bad'] or ('R1', '%s: X^%d Y^%d (X+Y)^%d = (%s) + (%s)X in A, but the arm rewrites it to (%s) + (%s)X' %
                                                        (pt, x, y, g, pshow(lhs[0]), pshow(lhs[1]), pshow(rhs[0]), pshow(rhs[1])))
                        if degs != {lhs_deg}:
                            rec['bad2'] = rec.get('bad2') or ('R2', '%s: left side has degree %d, right side terms have degrees %s (deg h=-2, t=-4, X=Y=handle=-2)' % (pt, lhs_deg, sorted(degs)))
                    elif kind == 'unit':
                        if not closed:
                            rec['bad'] = rec['bad'] or ('R1', '%s: an open component is replaced by the empty cobordism' % pt)
                        elif eps(lhs) != ONE:
                            rec['bad'] = rec['bad'] or ('R1', '%s: the arm evaluates the closed component to 1, but eps(X^%d Y^%d (X+Y)^%d) = %s' % (pt, x, y, g, pshow(eps(lhs))))
                    elif kind == 'zero':
                        if not closed:
                            rec['bad'] = rec['bad'] or ('R1', '%s: an open component is replaced by 0' % pt)
                        elif eps(lhs) != {}:
                            rec['bad'] = rec['bad'] or ('R1', '%s: the arm evaluates the closed component to 0, but eps(..) = %s' % (pt, pshow(eps(lhs))))
                    elif kind == 'orig':
                        if (closed, g, x, y) in rec_targets:
                            rec['bad'] = rec['bad'] or ('R1', '%s: the arm returns the component eval was called for, with its original genus and dots, although this state is also reached by recursion (from a rewriting step): the surface still carries the handles / dots that the step just traded for h, t' % pt)
                        if closed:
                            rec['bad'] = rec['bad'] or ('R1', '%s: a closed component is returned unevaluated' % pt)
                        if g > 0 or (x >= 1 and y >= 1) or x >= 2 or y >= 2:
                            rec['bad'] = rec['bad'] or ('R1', '%s: reducible (genus / XY / X^2 / Y^2) but returned as it came' % pt)
                    elif kind == 'normal':
                        gen = dt.ev(rule[0][1], args, eval_atom(closed))
                        xx, yy = dt.ev(rule[0][2], args, eval_atom(closed)), dt.ev(rule[0][3], args, eval_atom(closed))
                        if (gen, xx, yy) != (g, x, y):
                            rec['bad'] = rec['bad'] or ('R1', '%s: the normal-form arm returns genus %d, dots (%d,%d): information is lost' % (pt, gen, xx, yy))
                        if closed:
                            rec['bad'] = rec['bad'] or ('R1', '%s: a closed component reaches the normal-form arm and is never evaluated' % pt)
                        if g > 0 or (x >= 1 and y >= 1) or x >= 2 or y >= 2:
                            rec['bad'] = rec['bad'] or ('R1', '%s: reducible (genus / XY / X^2 / Y^2) but left as a normal form' % pt)
    for arm, rec in sorted(arms.items()):
        inst = 'part_eval::eval|arm %s' % arm
        if rec['bad']:
            rep.violation('E9.%s-relation-identity' % rec['bad'][0], inst, 'CobComp::part_eval: %s' % rec['bad'][1], where=where)
        else:
            rep.ok('E9.R1-relation-identity', inst, 'identity in A at %d grid points' % rec['points'])
        if arm.startswith('add(') or arm.startswith('mul('):
            inst2 = 'part_eval::eval|homogeneous %s' % arm
            if rec.get('bad2'):
                rep.violation('E9.R2-homogeneous', inst2, 'CobComp::part_eval: %s' % rec['bad2'][1], where=where)
            else:
                rep.ok('E9.R2-homogeneous', inst2, 'homogeneous at %d grid points' % rec['points'])
    rep.floor('E9 part_eval arms', len(arms), 7)
    rep.inventory['E9 grid points'] = npts
    return dt


def check_predicates(facts, rep, dt):
    """R4, R5"""
    names = {n: 'yui_kh::kh::internal::v2::cob::CobComp::' + n for n in ('should_part_eval', 'is_zero_cob', 'is_unit_cob')}
    for n, d in names.items():
        if d not in facts.bodies:
            rep.indet('E9: %s not found' % d)
            return
        rep.saw(facts.bodies[d])
    bad4 = bad5z = bad5u = None
    n4 = n5 = 0
    for closed in (0, 1):
        for g in range(4):
            for x in range(5):
                for y in range(5):
                    try:
                        at = cob_atom(closed, g, x, y)
                        spe, _ = dt.decide(names['should_part_eval'], {1: ('self',)}, at)
                        z, _ = dt.decide(names['is_zero_cob'], {1: ('self',)}, at)
                        u, _ = dt.decide(names['is_unit_cob'], {1: ('self',)}, at)
                        first = None
                        for conds, ret, p in dt.paths(EVAL):
                            ok = True
                            for term, value, alts in conds:
                                v = dt.ev(term, {2: g, 3: x, 4: y}, eval_atom(closed))
                                if value == 'else':
                                    if alts is not None and v in alts:
                                        ok = False
                                        break
                                elif v != value:
                                    ok = False
                                    break
                            if ok:
                                first = rule_of(ret)[0][0]
                                break
                    except Stuck as e:
                        rep.indet('E9: predicate outside the recognised fragment: %s' % e)
                        return
                    pt = 'closed=%d g=%d x=%d y=%d' % (closed, g, x, y)
                    n4 += 1
                    if bool(spe) != (first not in ('normal', 'orig')):
                        bad4 = bad4 or '%s: should_part_eval = %s but eval\'s first step is the %s arm' % (pt, bool(spe), first)
                    if closed:
                        full = eps(V(g, x, y))
                        if z:
                            n5 += 1
                            if full != {}:
                                bad5z = bad5z or '%s: is_zero_cob holds but the component evaluates to %s' % (pt, pshow(full))
                        if u:
                            n5 += 1
                            if full != ONE:
                                bad5u = bad5u or '%s: is_unit_cob holds but the component evaluates to %s' % (pt, pshow(full))
                    elif z or u:
                        bad5z = bad5z or '%s: an open component is classified zero/unit' % pt
    w = facts.bodies[names['should_part_eval']].where()
    for rule, inst, bad, okmsg in (('E9.R4-should-part-eval', 'should_part_eval|<=> some reducing arm fires', bad4, 'agrees on %d grid points' % n4),
                                   ('E9.R5-zero-unit-predicates', 'is_zero_cob|implies evaluation 0', bad5z, 'holds on the grid'),
                                   ('E9.R5-zero-unit-predicates', 'is_unit_cob|implies evaluation 1', bad5u, 'holds on the grid')):
        if bad:
            rep.violation(rule, inst, 'CobComp: ' + bad, where=w)
        else:
            rep.ok(rule, inst, okmsg)


DOT = {'X': AX, 'Y': AY, 'None': A1}


def extract_deloop(facts, rep):
    """rows (label, birth, death) per based/unbased from TngComplex::deloop; side check of deloop_with; element rows"""
    out = {}
    b = facts.one(r'^yui_kh::kh::internal::v2::tng_complex::TngComplex::<R>::deloop$')
    rep.saw(b)
    for p in SymEx(b).run():
        if p.end != 'return':
            continue
        based = None
        for e in p.branches():
            if sk(e.term).startswith('contains_base_pt('):
                based = (e.value == 'else')
        rows = []
        for e in p.calls():
            if e.name.endswith('TngComplex::<R>::deloop_with'):
                key = strip(e.args[1])
                lab = key[2][1][2] if (key[0] == 'call' and _is_add(key[1]) and key[2][1][0] == 'adt') else '?'
                rows.append((lab, e.args[3][2] if e.args[3][0] == 'adt' else '?', e.args[4][2] if e.args[4][0] == 'adt' else '?'))
        out['based' if based else 'unbased'] = rows
    # deloop_with: which closure goes with which edge direction, and which dot it uses
    w = facts.one(r'^yui_kh::kh::internal::v2::tng_complex::TngComplex::<R>::deloop_with$')
    rep.saw(w)
    sides = {}
    for p in SymEx(w, havoc_loops=True).run():
        for e in p.calls():
            if e.name.endswith('TngComplex::<R>::modify_edge') and len(e.args) == 4 and e.args[3][0] == 'closure':
                direction = 'in' if strip(e.args[2]) == ('arg', 2) else ('out' if strip(e.args[1]) == ('arg', 2) else '?')
                use = None
                # the edge modifier applied to a symbolic cobordism, captured values substituted (so it does not matter
                # whether the closure sits in deloop_with or in a helper that receives the side and the dot as parameters)
                from symex import apply_closure
                for q in apply_closure(e.args[3], [('f',)]) or []:
                    for c in q.calls():
                        if c.name.endswith('::cap_off') and len(c.args) == 4:
                            b_ = strip(c.args[1])
                            bot = b_[2] if b_[0] == 'adt' else '?'
                            d_ = strip(c.args[3])
                            dn = (w.local_name(d_[1]) or '') if d_[0] == 'arg' else sk(d_)
                            use = (bot, 'death' if 'death_dot' in dn else ('birth' if 'birth_dot' in dn else '?'))
                sides[direction] = use
    out['sides'] = sides
    # are birth_dot / death_dot the 4th / 5th parameters?
    out['params'] = [w.local_name(i) for i in range(1, w.arg_count + 1)]
    # element deloop
    eb = facts.one(r'^yui_kh::kh::internal::v2::builder::BuildElem::<R>::deloop$')
    rep.saw(eb)
    erows = {}
    for p in SymEx(eb).run():
        if p.end != 'return':
            continue
        marked = None
        for e in p.branches():
            t_ = sk(e.term)
            if 'base_pt' not in t_:
                continue
            if 'unwrap_or' in t_ or 'map_or' in t_ or 'is_some_and' in t_ or t_.startswith('contains('):
                marked = (e.value != 0)
            elif t_.startswith('discr(') and e.value == 0:
                marked = False
            elif t_.startswith('is_none(') and e.value != 0:
                marked = False
        rows = []
        for e in p.calls():
            if e.name.endswith('::insert') and len(e.args) == 3:
                key = strip(e.args[1])
                val = strip(e.args[2])
                lab = key[2][1][2] if (key[0] == 'call' and _is_add(key[1]) and key[2][1][0] == 'adt') else '?'
                if val[0] == 'call' and val[1].endswith('::cap_off') and len(val[2]) == 4:
                    rows.append((lab, val[2][1][2] if val[2][1][0] == 'adt' else '?', val[2][3][2] if val[2][3][0] == 'adt' else '?'))
        if marked is not None:
            erows['based' if marked else 'unbased'] = rows
    out['elements'] = erows
    return out


def check_deloop(facts, rep):
    try:
        D = extract_deloop(facts, rep)
    except Exception as e:
        rep.indet('E9.R6: deloop tables outside the recognised fragment: %s' % e)
        return
    rep.inventory['E9 deloop tables'] = {k: (v if not isinstance(v, dict) else {a: b for a, b in v.items()}) for k, v in D.items()}
    wh = 'yui-khovanov/src/kh/internal/v2/tng_complex.rs'
    rows = D.get('unbased') or []
    inst = 'TngComplex::deloop|dual basis (unbased)'
    problems = []
    if not rows or any('?' in r for r in rows):
        rep.indet('E9.R6: delooping of an unbased circle outside the recognised fragment: %s' % rows)
        return
    if sorted(r[0] for r in rows) != ['I', 'X']:
        problems.append('labels are %s, expected {X, I}' % [r[0] for r in rows])
    else:
        for (li, bi, di) in rows:
            for (lj, bj, dj) in rows:
                pair = eps(amul(DOT.get(di, A1), DOT.get(bj, A1)))
                want = ONE if li == lj else {}
                if pair != want:
                    problems.append('eps(death_%s * birth_%s) = %s, expected %s' % (li, lj, pshow(pair), pshow(want)))
        # sum birth (x) death == X (x) 1 + 1 (x) Y  (neck cutting: X(x)1 + 1(x)X - h 1(x)1)
        got = sorted((b_, d_) for (_, b_, d_) in rows)
        if got != sorted([('X', 'None'), ('None', 'Y')]):
            problems.append('sum birth (x) death = %s is not the neck-cutting element X(x)1 + 1(x)Y' % got)
    if problems:
        rep.violation('E9.R6-deloop-dual-basis', inst, 'delooping maps are not mutually inverse: ' + '; '.join(problems[:3]), where=wh)
    else:
        rep.ok('E9.R6-deloop-dual-basis', inst, 'rows %s' % rows)
    inst = 'TngComplex::deloop|based circle keeps X only'
    if D.get('based') == [('X', 'X', 'None')]:
        rep.ok('E9.R6-deloop-dual-basis', inst, str(D.get('based')))
    elif not D.get('based') or any('?' in r for r in D.get('based')):
        rep.indet('E9.R6: delooping of a based circle outside the recognised fragment: %s' % D.get('based'))
    else:
        rep.violation('E9.R6-deloop-dual-basis', inst, 'a based circle deloops to %s, expected [(X, birth X, death none)]' % D.get('based'), where=wh)
    inst = 'TngComplex::deloop_with|incoming capped with death, outgoing cupped with birth'
    if D['sides'] == {'in': ('Tgt', 'death'), 'out': ('Src', 'birth')} and D['params'][3:5] == ['birth_dot', 'death_dot']:
        rep.ok('E9.R6-deloop-dual-basis', inst, str(D['sides']))
    elif set(D['sides']) != {'in', 'out'} or any(v is None or '?' in v for v in D['sides'].values()) or D['params'][3:5] != ['birth_dot', 'death_dot']:
        rep.indet('E9.R6: deloop_with outside the recognised fragment: applies %s (parameters %s)' % (D['sides'], D['params']))
    else:
        rep.violation('E9.R6-deloop-dual-basis', inst, 'deloop_with applies %s (parameters %s); expected in:(Tgt,death), out:(Src,birth) with (.., birth_dot, death_dot)' % (D['sides'], D['params']), where=wh)
    # elements use the same death dots under the same labels
    inst = 'BuildElem::deloop|same death dots as the complex'
    cdeath = {l: d for (l, b_, d) in rows}
    e_un = D['elements'].get('unbased') or []
    e_b = D['elements'].get('based') or []
    ok = all(bt == 'Tgt' for (_, bt, _) in e_un + e_b) and {l: d for (l, _, d) in e_un} == cdeath and [(l, d) for (l, _, d) in e_b] == [('X', cdeath.get('X'))]
    if ok and e_un:
        rep.ok('E9.R6-deloop-dual-basis', inst, 'unbased %s, based %s' % (e_un, e_b))
    elif not e_un or not e_b or any('?' in r for r in e_un + e_b):
        rep.indet('E9.R6: BuildElem::deloop outside the recognised fragment: unbased %s, based %s' % (e_un, e_b))
    else:
        rep.violation('E9.R6-deloop-dual-basis', inst,
                      'cycles are delooped with %s / %s but the complex uses death dots %s: the transported cycle is no longer the image of the original one' % (e_un, e_b, cdeath),
                      where='yui-khovanov/src/kh/internal/v2/builder.rs')


def selftest(rep):
    """the algebra used as the oracle really is Z[h,t][X]/(X^2-hX-t) with Y = X - h"""
    ok = (amul(AX, AX) == aadd(ascale(H, AX), (T_, {})) and amul(AX, AY) == (T_, {}) and
          amul(AY, AY) == aadd(ascale(pneg(H), AY), (T_, {})) and eps(AX) == ONE and eps(AY) == ONE and eps(A1) == {} and
          eps(V(2, 1, 1)) == {} and V(1, 0, 0) == aadd(AX, AY) and amul(AX, AX) != aadd(ascale(T_, AX), (H, {})))
    rep.controls.append({'engine': 'E9.algebra', 'bad_flagged': ok, 'detail': 'X^2=hX+t, XY=t, Y^2=-hY+t, eps; wrong identity rejected'})
    if not ok:
        rep.indet('E9 self-test: the reference algebra is wrong')


CPE = 'yui_kh::kh::internal::v2::cob::CobComp::part_eval'
COBPE = 'yui_kh::kh::internal::v2::cob::Cob::part_eval'


def comp_atom(closed, g, x, y):
    """like cob_atom, for a component reached through any argument (self, or the item of an iterator closure)"""
    def atom(t, ev):
        s = t
        while s[0] in ('ref', 'deref'):
            s = s[1]
        if s[0] == 'call' and s[1].endswith('cob::CobComp::is_closed'):
            return (int(closed),)
        if s[0] == 'field':
            base = s[1]
            while base[0] in ('ref', 'deref'):
                base = base[1]
            if base[0] == 'arg' or base == ('comp',):
                if s[2] == 'genus':
                    return (g,)
                if s[2] == 'dots':
                    return ((x, y),)
            if s[2] in ('0', '1') and base[0] == 'field' and base[2] == 'dots':
                return ((x, y)[int(s[2])],)
        if s[0] == 'arg':
            return (('comp',),)
        return None
    return atom


def _specialise(p, guard):
    """polynomial in (h, t) under h := 0 and / or t := 0"""
    return {k: v for k, v in p.items() if not (('h' in guard and k[0] > 0) or ('t' in guard and k[1] > 0))}


def _ring_guard(term, value):
    """is_zero(h) / is_zero(t) taken as true -> 'h' / 't';  false -> '' (generic);  not a ring guard -> None"""
    s = strip(term)
    if s[0] == 'call' and s[1].split('::')[-1] == 'is_zero' and len(s[2]) == 1:
        a = strip(s[2][0])
        if a in (('arg', 2), ('arg', 3)):
            return ({2: 'h', 3: 't'}[a[1]]) if value != 0 else ''
    return None


def check_shortcuts(facts, rep, dt):
    """R7: every return path of the part_eval wrappers that does not go through the relation table is justified on the grid"""
    GRID = [(c, g, x, y) for c in (0, 1) for g in range(4) for x in range(5) for y in range(5)]
    # ---- CobComp::part_eval
    b = facts.bodies.get(CPE)
    if b is None:
        rep.indet('E9.R7: %s not found' % CPE)
        return
    rep.saw(b)
    n = 0
    try:
        for conds, ret, p in dt.paths(CPE):
            n += 1
            r = strip(ret)
            table = r[0] == 'call' and r[1] == EVAL and [sk(x).replace('&', '').replace('*', '') for x in r[2]] == ['arg1', 'arg1.genus', 'arg1.dots.0', 'arg1.dots.1', 'arg2', 'arg3']
            if table and not conds:
                rep.ok('E9.R7-shortcuts-justified', 'CobComp::part_eval|goes through the relation table', 'eval(self, genus, x, y, h, t)')
                continue
            guard, comp_conds = '', []
            for term, value, alts in conds:
                rg = _ring_guard(term, value)
                if rg is None:
                    comp_conds.append((term, value, alts))
                else:
                    guard += rg
            inst = 'CobComp::part_eval|shortcut [%s]' % ', '.join('%s=%s' % (sk(t)[:50], v) for t, v, _ in conds)
            if table:
                rep.ok('E9.R7-shortcuts-justified', inst, 'still evaluated by the relation table')
                continue
            kind = rule_of(ret)[0][0] if r[0] == 'call' else None
            if kind not in ('zero',):
                raise Stuck('return %s under %s' % (sk(ret)[:60], [sk(t)[:40] for t, _, _ in conds]))
            bad = None
            pts = 0
            for (closed, g, x, y) in GRID:
                at = comp_atom(closed, g, x, y)
                ok = True
                for term, value, alts in comp_conds:
                    v = dt.ev(term, {1: ('comp',)}, at)
                    v = int(v) if isinstance(v, bool) else v
                    if (value == 'else' and alts is not None and v in alts) or (value != 'else' and v != value):
                        ok = False
                        break
                if not ok:
                    continue
                pts += 1
                val = V(g, x, y)
                val = (_specialise(val[0], guard), _specialise(val[1], guard))
                nz = eps(val) if closed else (val[0] or val[1])
                if nz and bad is None:
                    bad = 'for a %s component with genus %d and dots (%d, %d) the shortcut returns 0, but its value X^%d Y^%d (X+Y)^%d = (%s) + (%s) X is not 0%s' % (
                        'closed' if closed else 'open', g, x, y, x, y, g, pshow(val[0]), pshow(val[1]),
                        (' when only %s = 0 is known' % ' and '.join(sorted(set(guard)))) if guard else '')
            if bad:
                rep.violation('E9.R7-shortcuts-justified', inst, 'CobComp::part_eval: ' + bad, where=b.where())
            else:
                rep.ok('E9.R7-shortcuts-justified', inst, 'zero on all %d grid points it applies to' % pts)
    except Stuck as e:
        rep.indet('E9.R7: CobComp::part_eval outside the recognised fragment: %s' % e)
        return
    # ---- Cob::part_eval
    cb = facts.bodies.get(COBPE)
    if cb is None:
        rep.indet('E9.R7: %s not found' % COBPE)
        return
    rep.saw(cb)
    try:
        for conds, ret, p in dt.paths(COBPE):
            r = strip(ret)
            cs = [(sk(t).replace('&', '').replace('*', ''), v) for t, v, _ in conds]
            z = next((v for t, v in cs if t == 'is_zero_cob(arg1)'), None)
            sp = next((v for t, v in cs if t == 'should_part_eval(arg1)'), None)
            others = [(t, v, a) for (t, v, a) in conds if sk(t).replace('&', '').replace('*', '') not in ('is_zero_cob(arg1)', 'should_part_eval(arg1)')]
            # the product over the components written as an explicit loop: iterator bookkeeping is not a shortcut condition
            loop_form = False
            rs = re.sub(r'#(?:i\d+:)?\d+\.\d+', '', show(ret, -1000))
            if re.match(r'(from\(empty\(\)\)|combine\()', rs) and all(re.match(r'discr\(next\(', sk(t)) for t, v, a in others) \
                    and (rs.startswith('from(empty())') or 'part_eval(' in rs):
                loop_form = True
                others = []
            kind = None
            if r[0] == 'call':
                nm = r[1].split('::')[-1]
                if nm == 'zero' and not r[2]:
                    kind = 'zero'
                elif nm == 'from' and len(r[2]) == 1 and strip(r[2][0]) == ('arg', 1):
                    kind = 'self'
                elif nm == 'fold' and len(r[2]) == 3:
                    kind = 'fold'
            inst = 'Cob::part_eval|%s [%s]' % (kind, ', '.join('%s=%s' % (t[:50], v) for t, v in cs))
            if not others and ((kind == 'zero' and z not in (None, 0)) or (kind == 'self' and z == 0 and sp == 0) or (kind == 'fold' and z == 0 and sp not in (None, 0))):
                rep.ok('E9.R7-shortcuts-justified', inst, {'zero': 'is_zero_cob => 0 (R5)', 'self': 'nothing to reduce (R4)', 'fold': 'product of the component evaluations'}[kind])
                continue
            if loop_form and z == 0 and sp not in (None, 0):
                rep.ok('E9.R7-shortcuts-justified', 'Cob::part_eval|loop over the components', 'product of the component evaluations')
                continue
            if kind == 'fold' or kind == 'self' and not others:
                rep.ok('E9.R7-shortcuts-justified', inst, 'evaluated component-wise / returned unchanged')
                continue
            if kind != 'zero':
                raise Stuck('return %s' % sk(ret)[:80])
            guard = ''
            preds = []
            for term, value, alts in others:
                rg = _ring_guard(term, value)
                if rg is not None:
                    guard += rg
                    continue
                s = strip(term)
                src = s[2][0] if s[0] == 'call' and s[2] else None
                if src is not None and src[0] == 'mref':
                    ev_ = next((e for e in p.calls() if e.site == s[3]), None)
                    if ev_ is not None and ev_.pre:
                        src = ev_.pre[0]
                if s[0] == 'call' and s[1].split('::')[-1] == 'any' and len(s[2]) == 2 and value != 0 and 'arg1.comps' in sk(src).replace('*', '').replace('&', ''):
                    clo = strip(s[2][1])
                    if clo[0] == 'closure' and clo[1] in facts.bodies:
                        preds.append(clo[1])
                        continue
                raise Stuck('condition %s = %s' % (sk(term)[:80], value))
            if not preds:
                raise Stuck('zero is returned under ring conditions only')
            bad = None
            pts = 0
            for (closed, g, x, y) in GRID:
                at = comp_atom(closed, g, x, y)
                if not all(dt.decide(pn, {1: ('env',), 2: ('comp',)}, at)[0] for pn in preds):
                    continue
                pts += 1
                val = V(g, x, y)
                val = (_specialise(val[0], guard), _specialise(val[1], guard))
                nz = eps(val) if closed else (val[0] or val[1])
                if nz and bad is None:
                    bad = 'a cobordism containing a %s component with genus %d and dots (%d, %d) is replaced by 0, but that component is X^%d Y^%d (X+Y)^%d = (%s) + (%s) X, not 0%s' % (
                        'closed' if closed else 'open', g, x, y, x, y, g, pshow(val[0]), pshow(val[1]),
                        (' when only %s = 0 is known' % ' and '.join(sorted(set(guard)))) if guard else '')
            if bad:
                rep.violation('E9.R7-shortcuts-justified', inst, 'Cob::part_eval: ' + bad, where=cb.where())
            else:
                rep.ok('E9.R7-shortcuts-justified', inst, 'zero on all %d component shapes it applies to' % pts)
    except Stuck as e:
        rep.indet('E9.R7: Cob::part_eval outside the recognised fragment: %s' % e)


def check_based_predicate(facts, rep):
    """R8: "this circle carries the base point" is decided by one predicate at both delooping sites - the complex
    (TngComplex::contains_base_pt) and the tracked cycles (BuildElem::deloop): based iff there is a base point and the circle
    *contains* it. Decided by value: both sites are folded over (base point present?, circle contains it?, any other test
    involving the base point - e.g. "it is the minimal edge of the circle"); the complex answers the predicate, the cycles
    show it by inserting one label (X) instead of two. Membership must be `contains`: a distinguished edge makes the
    reduced theory depend on how the edges are numbered."""
    from symex import apply_closure
    sites = {'complex': 'yui_kh::kh::internal::v2::tng_complex::TngComplex::<R>::contains_base_pt',
             'cycles': 'yui_kh::kh::internal::v2::builder::BuildElem::<R>::deloop'}
    dt = DTree(facts)
    used = set()

    def nk(t):
        return re.sub(r'\^_ref__', '^', sk(t)).replace('*', '').replace('&', '')

    def make_atom(B, C, M, circ):
        def atom(t, ev):
            s = nk(t)
            if t[0] == 'discr' and nk(t[1]) == 'arg1.base_pt':
                return (1 if B else 0,)
            if t[0] == 'call':
                nm = t[1].split('::')[-1]
                if nm in ('is_some', 'is_none') and len(t[2]) == 1 and nk(t[2][0]) == 'arg1.base_pt':
                    return (int(B == (nm == 'is_some')),)
                if nm in ('unwrap_or', 'map_or', 'is_some_and') and 'arg1.base_pt' in s:
                    # base_pt.map(f).unwrap_or(d) / base_pt.map_or(d, f) / base_pt.is_some_and(f)
                    if nm == 'unwrap_or':
                        m = strip(t[2][0])
                        if not (m[0] == 'call' and m[1].split('::')[-1] == 'map' and nk(m[2][0]) == 'arg1.base_pt'):
                            return None
                        clo, dflt = m[2][1], t[2][1]
                    elif nm == 'map_or':
                        clo, dflt = t[2][2], t[2][1]
                    else:
                        clo, dflt = t[2][1], ('const', 0)
                    if not B:
                        return (ev(dflt),)
                    rr = set()
                    for q in apply_closure(clo, [('basept',)]) or []:
                        if q.end == 'return':
                            rr.add(dt.ev(q.ret, {}, atom))
                    if len(rr) != 1:
                        raise Stuck('base-point closure has %d outcomes' % len(rr))
                    return (rr.pop(),)
                if nm == 'contains' and len(t[2]) == 2 and (('basept' in s) or ('base_pt' in s)):
                    if nk(t[2][0]) in circ:
                        used.add('contains')
                        return (C,)
                    raise Stuck('membership test on %s' % nk(t[2][0])[:60])
                if nm in ('eq', 'ne') and (('basept' in s) or ('base_pt' in s)):
                    used.add('other: ' + s[:60])
                    return (int(M == (nm == 'eq')),)
            if t[0] == 'bin' and t[1] in ('Eq', 'Ne') and (('basept' in s) or ('base_pt.Some' in s)):
                used.add('other: ' + s[:60])
                return (int(M == (t[1] == 'Eq')),)
            return None
        return atom
    tables = {}
    try:
        cb = facts.bodies.get(sites['complex'])
        eb = facts.bodies.get(sites['cycles'])
        if cb is None or eb is None:
            rep.indet('E9.R8: contains_base_pt / BuildElem::deloop not found')
            return
        rep.saw(cb)
        rep.saw(eb)
        tbl = {}
        for B in (0, 1):
            for C in (0, 1):
                for M in (0, 1):
                    v, _ = dt.decide(cb.defp, {1: 'SELF', 2: 'CIRC'}, make_atom(B, C, M, ('arg2', 'arg1.^c')))
                    tbl[(B, C, M)] = bool(v)
        tables['complex'] = tbl
        paths = [(conds, ret, p) for conds, ret, p in dt.paths(eb.defp)]
        tbl = {}
        for B in (0, 1):
            for C in (0, 1):
                for M in (0, 1):
                    at = make_atom(B, C, M, ('arg3', 'arg1.^c'))

                    def at2(t, ev, at=at):
                        r_ = at(t, ev)
                        if r_ is not None:
                            return r_
                        if t[0] == 'discr' and strip(t[1])[0] == 'call' and strip(t[1])[1].split('::')[-1] == 'remove':
                            return (1,)        # the element has a retraction at this key
                        return None
                    _, p = dt.decide_paths(paths, {1: 'SELF', 2: 'KEY', 3: 'CIRC'}, at2, what='BuildElem::deloop', want_ret=False)
                    n_ins = sum(1 for e in p.calls() if e.name.endswith('::insert') and len(e.args) == 3)
                    if n_ins not in (1, 2):
                        raise Stuck('BuildElem::deloop inserts %d labels' % n_ins)
                    tbl[(B, C, M)] = (n_ins == 1)
        tables['cycles'] = tbl
    except (Stuck, KeyError, TypeError, IndexError) as e:
        rep.indet('E9.R8: based-circle predicate outside the recognised fragment: %s' % str(e)[:160])
        return
    inst = 'based circle|complex and cycles: based iff a base point exists and the circle contains it'
    want = {(B, C, M): bool(B and C) for B in (0, 1) for C in (0, 1) for M in (0, 1)}
    bad = [who for who, t in tables.items() if t != want]
    if not bad:
        rep.ok('E9.R8-based-circle-predicate', inst, 'both sites folded over 8 points: based = Some(e) and contains(c, e)')
    else:
        diff = {who: sorted(k for k in want if tables[who][k] != want[k])[:2] for who in bad}
        rep.violation('E9.R8-based-circle-predicate', inst,
                      'the %s decide(s) "circle carries the base point" differently from `base point present and contained in the circle` at (present, contained, other test) = %s (tests used: %s) - a based circle delooped with both labels in one place and with X only in the other (or depending on the edge numbering) changes the reduced homology' %
                      (' and the '.join(bad), diff, sorted(used)), where='yui-khovanov/src/kh/internal/v2/tng_complex.rs')


def run(facts, rep, parts=('R1', 'R4', 'R6')):
    selftest(rep)
    dt = None
    if 'R1' in parts or 'R4' in parts:
        dt = check_part_eval(facts, rep)
    if dt is not None and 'R4' in parts:
        check_predicates(facts, rep, dt)
    if dt is not None and 'R1' in parts:
        check_shortcuts(facts, rep, dt)
    if 'R6' in parts:
        check_deloop(facts, rep)
        check_based_predicate(facts, rep)


# ------------------------------------------------------------------ R11: neutral-element shortcuts of vertical composition

def check_stack_shortcuts(facts, rep):
    """R11 (C02 / C01 / C05): Cob::stack(self, other) may skip the composition only when the operand it drops is a neutral
    element. Every return path of stack that does not reach the component-wise composition is read as a guarded shortcut
    "keep self" / "self := other"; its guard - whatever predicates of Cob it calls - is *folded over a finite model of
    cobordisms*: lists of at most two connected components, each with 0..2 boundary pieces at either end, the two ends
    equal or not, genus 0 / 1, no dot / one dot. In that model a cobordism is an identity exactly when every component is
    a cylinder over one piece (|src| = |tgt| = 1, src = tgt, genus 0, no dots); the empty cobordism is the identity of the
    empty tangle. A guard that lets through a model cobordism which is not an identity (e.g. "src == tgt, genus 0, no dots",
    which the connected tube {a, b} -> {a, b} satisfies) drops a factor of the differential."""
    import re
    from symex import SymEx, show, strip
    from dtree import DTree, Stuck
    ST = 'yui_kh::kh::internal::v2::cob::Cob::stack'
    b = facts.bodies.get(ST)
    if b is None:
        rep.indet('E9.R11: Cob::stack not found')
        return
    rep.saw(b)

    def dk(t):
        return re.sub(r'#(?:i\d+:)?\d+\.\d+', '', show(t, -1000))
    shortcuts = []
    full = 0
    for p in SymEx(b, havoc_loops=True, max_paths=5000).run():
        if p.end != 'return':
            continue
        names = [e.name.split('::')[-1] for e in p.calls()]
        if 'stack_comps' in names or 'take_stackable_comps' in names or 'normalize' in names:
            full += 1
            continue
        writes = [(dk(('mref', e.lv)) if False else e.lv, dk(e.term)) for e in p.events if e.kind == 'write']
        whole = [w for w in writes if w[0] == (('ptr', ('arg', 1)), ())]
        if whole and whole[-1][1] == 'arg2':
            effect = 'self := other'
        elif not writes:
            effect = 'keep self'
        else:
            rep.indet('E9.R11: a shortcut of Cob::stack writes %s' % [w[1][:60] for w in writes][:2])
            return
        conds = [(e.term, e.value) for e in p.branches() if not (e.name or '').startswith('assert:')]
        shortcuts.append((effect, conds))
    if not full:
        rep.indet('E9.R11: no composing path found in Cob::stack')
        return
    # the model
    def tng(ids):
        return {'comps': tuple(ids)}
    comps = []
    for ns in range(3):
        for nt in range(3):
            for same in ((True, False) if ns == nt and ns > 0 else (False,)):
                for g in (0, 1):
                    for dots in ((0, 0), (1, 0)):
                        src = tng(range(ns))
                        tgt = tng(range(ns)) if same else tng(range(10, 10 + nt))
                        comps.append({'src': src, 'tgt': tgt, 'genus': g, 'dots': dots})

    def is_cyl(c):
        return len(c['src']['comps']) == 1 and c['src'] == c['tgt'] and c['genus'] == 0 and c['dots'] == (0, 0)
    tube = next(c for c in comps if len(c['src']['comps']) == 2 and c['src'] == c['tgt'] and c['genus'] == 0 and c['dots'] == (0, 0))
    cyl = next(c for c in comps if is_cyl(c))
    cobs = [()] + [(c,) for c in comps] + [(cyl, c) for c in comps] + [(tube, cyl)]
    dt = DTree(facts)

    def atom(t, ev):
        if t[0] == 'call':
            nm = t[1].split('::')[-1]
            a = t[2]
            if nm in ('iter', 'deref', 'as_slice', 'into_iter', 'as_ref', 'borrow') and len(a) == 1:
                return (ev(a[0]),)
            if nm == 'is_empty' and len(a) == 1 and t[1] not in facts.bodies:
                v = ev(a[0])
                if isinstance(v, tuple):
                    return (int(len(v) == 0),)
            if nm == 'len' and len(a) == 1 and t[1] not in facts.bodies:
                v = ev(a[0])
                if isinstance(v, tuple):
                    return (len(v),)
            if nm in ('all', 'any') and len(a) == 2:
                items = ev(a[0])
                clo = strip(a[1])
                if isinstance(items, tuple) and clo[0] == 'closure' and clo[1] in facts.bodies:
                    res = [bool(dt.decide(clo[1], {1: clo, 2: it}, atom)[0]) for it in items]
                    return (int(all(res) if nm == 'all' else any(res)),)
            if nm == 'is_stackable':
                return (1,)
        return None

    def holds(conds, A, B):
        for term, value in conds:
            v = dt.ev(term, {1: {'comps': A}, 2: {'comps': B}}, atom)
            v = int(bool(v)) if isinstance(v, bool) else v
            if value == 'else':
                if v == 0:
                    return False
            elif v != value:
                return False
        return True
    bad = []
    n = 0
    try:
        for effect, conds in shortcuts:
            mentions_self = any('arg1' in dk(t) for t, _ in conds)
            for X in cobs:
                # the dropped operand is X; the other operand is left arbitrary (empty here: guards test one operand each)
                for A, B in (((X, ()) if effect == 'self := other' else ((), X)), ((X, (cyl,)) if effect == 'self := other' else ((cyl,), X))):
                    n += 1
                    if holds(conds, A, B):
                        dropped = A if effect == 'self := other' else B
                        if not all(is_cyl(c) for c in dropped):
                            c = next(c for c in dropped if not is_cyl(c))
                            bad.append('%s is taken when the dropped operand has a component with |src| = %d, |tgt| = %d, src %s tgt, genus %d, dots %s' %
                                       (effect, len(c['src']['comps']), len(c['tgt']['comps']), '=' if c['src'] == c['tgt'] else '!=', c['genus'], c['dots']))
    except (Stuck, KeyError, TypeError, IndexError) as e:
        rep.indet('E9.R11: guard of a Cob::stack shortcut outside the recognised fragment: %s' % str(e)[:160])
        return
    inst = 'Cob::stack|a shortcut drops an operand only if it is an identity cobordism'
    if bad:
        rep.violation('E9.R11-neutral-shortcuts', inst,
                      'Cob::stack: %s - such a component is not an identity (a connected surface over two boundary pieces is a tube, not two cylinders), so a factor of a composed differential is silently dropped' % sorted(set(bad))[0],
                      where=b.where())
    else:
        rep.ok('E9.R11-neutral-shortcuts', inst, '%d shortcut path(s), %d model points folded' % (len(shortcuts), n))
    rep.floor('E9.R11 shortcut paths of Cob::stack', len(shortcuts), 2)
