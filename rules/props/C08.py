"""C08 - chain reduction: structure of one reduction step and of the Schur transfer maps (values NOT decided)."""
import e17_schur, e18_reducer, e8b_matrix, e2_float, e5_locks
import e33_scans

LEVEL = 'other'
EXPLANATION = ('One step of ChainReducer replaces d_i by the Schur complement of a permuted partially triangular block and must update the '
               'neighbouring differentials, the accumulated transfer maps and the tracked vectors consistently. Decided from the MIR: (E17) '
               'the block expressions of Schur::from_partial_triangular satisfy s = d - c a^-1 b, F_tgt*M*B_src = s, F*B = 1 and the '
               'chain-map conditions M*B_src = B_tgt*s, F_tgt*M = s*F_src in the free non-commutative algebra (under the contract of the '
               'triangular solvers); (E18) everything living on C_i is updated with the column permutation q and everything on C_{i+1} '
               'with the row permutation p, with the same r, the right neighbour degrees and the right source/target transform; (E10b) '
               'merged transforms compose in the same order collapsed and uncollapsed; (E2) no float decides a value. These hold for every '
               'pivot strategy and - being properties of the code - for every schedule (the concurrency clauses are decided under C11/C12). '
               'NOT decided: that the reduced complex has the same homology (B*F ~ 1), correctness of the triangular solvers and of the '
               'permutations derived from the pivots, deep vs shallow reduction.')
TRUSTED = ['rustc MIR', 'solve_triangular(t,a,b) = a^-1 b, solve_triangular_left(t,a,c) = c a^-1 (value clause of C12)',
           'SpMat::permute(p, q) permutes rows by p and columns by q; Trans::append_perm / merge semantics']


def scope(b):
    return b.defp.startswith('yui_homology::utils::chain_reducer::') or b.defp.startswith('yui_matrix::sparse::schur::')


def run(ctx, rep):
    facts = ctx.facts()
    rep.rule('E33', e33_scans.__doc__.strip().split('\n')[0])
    e33_scans.run_for(facts, rep, 'chain reducer', ['chain_reducer'], 1)
    import fixtures
    fixtures.run_controls(rep, ['E2'], lambda: ctx.reload())
    rep.rule('E17', e17_schur.__doc__.strip().split('\n')[0])
    rep.rule('E18', e18_reducer.__doc__.strip().split('\n')[0])
    e17_schur.run(facts, rep)
    e18_reducer.run(facts, rep)
    e18_reducer.check_complex_glue(facts, rep)
    e8b_matrix.check_trans_order(facts, rep)
    e5_locks.check_candidate_predicate(facts, rep)
    e2_float.apply(facts, rep, scope, 'C08', floor_scope=40)
