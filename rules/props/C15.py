"""C15 - Euclidean-domain operations: exact division, gcd, Bezout, units, rounding.

Decided (structural, necessary conditions):
  E2  no float on any data/control path of div_round, Div/Rem, EucRing/Ring operations
      ("exactly rounded quotient for operands of any size").
  E3  every return path of gcd/gcdx/lcm (generic and overriding bodies) yields the normalised
      associate ("normalised associate regardless of argument order").
  E20 Q3-Q6: QuadInt inverse = norm^-1 * conj, Gauss / Eisenstein div_round rounds the exact numerator
      self * conj(rhs) by norm(rhs) in a basis whose change is a checked linear identity, rem = a - b*(a/b),
      and the quadrant / sextant normalising-unit tables send every z into one fundamental sector.
Not decided: Bezout identity values, remainder norm strictly smaller (needs the rounding error bound as arithmetic).
"""
import e2_float, e3_gcd, e15_divround, e20_quadint

LEVEL = 'other'
EXPLANATION = ('Static analysis of the type-checked MIR of /repo: (E2) float-taint dataflow with call-graph '
               'summaries over every body implementing DivRound/Div/Rem/EucRing/Ring in crate yui - no exact '
               'operation may return, branch on or store a float-derived value; (E3) path-sensitive symbolic '
               'summaries of every return path of EucRing::{gcd,gcdx,lcm} (defaults + overrides) - the returned '
               'gcd must come from an accepted normalising producer, and a unit-rescaled gcd must carry equally '
               'rescaled Bezout coefficients. (E15) every Neg/Add/Sub of the generic nearest-integer quotient is proved to stay inside the range of an 8/32/64/128-bit '
               'two\'s-complement type on every path (linear model of truncating division, Fourier-Motzkin). (E20) QuadInt inv / div_round / rem / normalizing_unit formulas as polynomial identities and sign-table entailments (Fourier-Motzkin). The Bezout values and the remainder-norm bound are not decided.')
TRUSTED = ['rustc MIR (dev profile, mir-opt-level=0) of the current /repo tree',
           'class-hierarchy over workspace impls over-approximates unresolved trait calls',
           'num_integer gcd/extended_gcd/lcm return non-negative (normalised) values',
           'Ring::normalizing_unit(v) is a unit u with v*u normalised (its definition; QuadInt tables checked by E20.Q6, integer / polynomial ones trusted)']

EXACT_TRAITS = ('DivRound', 'std::ops::Div', 'std::ops::Rem', 'std::ops::DivAssign', 'std::ops::RemAssign',
                'EucRing', 'abst::ring::Ring')


def scope(b):
    if b.crate != 'yui':
        return False
    tr = e2_float.trait_of(b) or ''
    if any(tr.endswith(x) for x in EXACT_TRAITS):
        return True
    if b.name in ('div_rem', 'div_round', 'gcd', 'gcdx', 'lcm', 'divides'):
        return True
    return False


def run(ctx, rep):
    facts = ctx.facts()
    import fixtures
    fixtures.run_controls(rep, ['E2', 'E3'], lambda: ctx.reload())
    rep.rule('E2', e2_float.__doc__.strip().split('\n')[0])
    rep.rule('E3', e3_gcd.__doc__.strip().split('\n')[0])
    e2_float.apply(facts, rep, scope, 'C15', floor_scope=60)
    e3_gcd.run(facts, rep)
    e3_gcd.check_bezout_loop(facts, rep)
    e3_gcd.check_poly_division(facts, rep)
    rep.rule('E15', e15_divround.__doc__.strip().split('\n')[0])
    e15_divround.run(facts, rep)
    e15_divround.check_nearest(facts, rep)
    rep.rule('E20', e20_quadint.__doc__.strip().split('\n')[0])
    e20_quadint.selftest(rep)
    e20_quadint.run(facts, rep, parts=('Q3', 'Q4', 'Q5', 'Q6'))
    rep.callsites += sum(len(facts.bodies[k].calls()) for k in rep.functions if k in facts.bodies)
