"""C03 - tables over Z, Q, F2, F3 are mutually consistent: the structural clauses of its listed mechanisms.

The universal-coefficient relations are arithmetic between ranks / torsion computed at run time and are NOT decided.
Decided is one necessary structural condition per anchored mechanism, for every link and ring:
  E23 G1-G4  both routes to a bigraded table partition the generators by (h, q): every generator of H_i resp. C_i
             is filed exactly once, under its own q-degree, free iff k < rank, torsion order tors[k - rank];
             the piece (i, j) is assembled from the entry of the same key; the support covers min..max;
  E21 N1-N3  invariant-factor normalisation ends only when d[i] | d[i+1] for the whole non-zero prefix (torsion is
             reported as invariant factors, so "number of summands of order divisible by p" is well defined);
  E21 N4     nested diagonal entries are exchanged by a permutation, never mixed (generators stay q-homogeneous);
  E10 R6     the (-c) -> ring dispatch runs the documented ring type for each of Z, Q, F2, F3.
"""
import e23_bigrade, e21_snfscan, e10_cli, e19_homcalc, e1_ratio

LEVEL = 'other'
EXPLANATION = ('Static analysis (MIR path summaries with loop havoc; CFG reachability; expanded dispatch table) of the four mechanisms the '
               'property is anchored in: (E23) collect_gen_info visits k = 0 .. rank + #tors of each H_i once and files generator k under the '
               'single key (i, q_deg(gen k)), counting it free iff k < rank, else pushing tors[k - rank], recording k either way; '
               'KhHomology::into_bigraded assembles piece (i, j) from the entry of that key in (rank, tors, indices) order over H_i; range_of is '
               '(min, max); gen_grid puts x into (i, j) iff x is a generator of C_i with q_deg(x) = j. (E21) the Smith normal form leaves its '
               'normalising scan only after a full pass of successful d[i] | d[i+1] tests. (E10.R6) kh / ckh run App::<T>::run with T the '
               'documented ring for every (-c, poly) combination. These are necessary for the two routes to agree bidegree by bidegree and for '
               'rank / torsion to be comparable across rings; the universal-coefficient arithmetic itself is NOT decided.')
TRUSTED = ['rustc MIR', 'HashMap::entry / or_insert_with semantics', 'generators returned by Summand::gen are q-homogeneous (not checked)']


def run(ctx, rep):
    facts = ctx.facts()
    rep.rule('E23', e23_bigrade.__doc__.strip().split('\n')[0])
    rep.rule('E21', e21_snfscan.__doc__.strip().split('\n')[0])
    rep.rule('E10.R6', 'dispatch table of kh / ckh: App::<T>::run is reached with the documented ring type for every combination')
    e23_bigrade.run(facts, rep)
    e21_snfscan.run(facts, rep, mixing_rule=True)
    rep.rule('E19', 'the torsion generators are the rows / columns r1-t..r1 of the SNF transform, the ones that belong to the non-unit factors (E19 H1-H4)')
    e19_homcalc.run(facts, rep)
    for cmd in ('kh', 'ckh'):
        e10_cli.check_dispatch_table(facts, rep, cmd, 'i64')
    rep.rule('E1-ratio', 'the field Q the ranks are compared over: every Ratio operation returns the lowest-terms representative (E1 R0-R5); a product that is off by a common factor makes a cancellation d - c a^-1 b fail and changes the Q ranks only')
    e1_ratio.run(facts, rep)
    e1_ratio.check_mul_cancels_first(facts, rep)
    rep.callsites += sum(len(facts.bodies[k].calls()) for k in rep.functions if k in facts.bodies)
