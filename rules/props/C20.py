"""C20 - the ykh command: error discipline and dispatch table (E10). Table cell contents are NOT decided."""
import e10_cli, harness, e28_rmodstr

LEVEL = 'other'
EXPLANATION = ('Call-graph and path analysis of the ykh binary\'s MIR: every command dispatch runs inside the panic guard, the guard '
               'turns unwinding panics into Err, main prints a table only on the Ok arm and exits non-zero with only stderr output on '
               'the Err arm, nothing reachable from dispatch writes stdout (no partial table before an error), no panic=abort profile; '
               'and the expanded (-t, -c) dispatch of kh/ckh calls App::<T>::run exactly with the documented ring type for each '
               'combination, with every documented combination present. (E28) the module string of a cell mentions every summand: "0" only for the trivial module, the bare symbol for rank 1, symbol^rank above, and one (symbol/t)[^mult] per torsion key, for every rank. (E28.S4) a group is printed in the cell of its own bidegree: rows = j descending, columns = i ascending, entry(row, col) = get((col, row)), and format::table calls entry(row, col) over all rows x columns. NOT decided: '
               'separator characters, malformed-input detection inside the parsers.')
TRUSTED = ['rustc MIR of the ykh crate (default features; thorough tier adds --features all / bigint / i128)',
           'call graph over-approximates (CHA)', 'std::process::exit terminates with the given status']


def run(ctx, rep):
    facts = ctx.facts()
    rep.rule('E10', e10_cli.__doc__.strip().split('\n')[0])
    e10_cli.run(facts, rep, 'i64', harness.REPO)
    e10_cli.check_name_grammar(facts, rep, harness.REPO)
    e10_cli.check_pair_order(facts, rep)
    e10_cli.check_bigraded_decision(facts, rep)
    rep.rule('E28', e28_rmodstr.__doc__.strip().split('\n')[0])
    e28_rmodstr.run(facts, rep)
    e28_rmodstr.check_cell_placement(facts, rep)
    e28_rmodstr.check_digit_range(facts, rep)
    if ctx.tier == 'thorough':
        for cfg, ity in (('ykh-i128', 'i128'), ('ykh-bigint', 'num_bigint::BigInt')):
            f2 = ctx.facts(cfg)
            for cmd in ('kh', 'ckh'):
                e10_cli.check_dispatch_table(f2, rep, cmd, ity)
