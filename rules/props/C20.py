"""C20 - the ykh command: error discipline and dispatch table (E10). Table cell contents are NOT decided."""
import e10_cli, harness

LEVEL = 'other'
EXPLANATION = ('Call-graph and path analysis of the ykh binary\'s MIR: every command dispatch runs inside the panic guard, the guard '
               'turns unwinding panics into Err, main prints a table only on the Ok arm and exits non-zero with only stderr output on '
               'the Err arm, nothing reachable from dispatch writes stdout (no partial table before an error), no panic=abort profile; '
               'and the expanded (-t, -c) dispatch of kh/ckh calls App::<T>::run exactly with the documented ring type for each '
               'combination, with every documented combination present. NOT decided: that the cells of the printed table equal the '
               'library\'s groups (formatting of values), malformed-input detection inside the parsers.')
TRUSTED = ['rustc MIR of the ykh crate (default features; thorough tier adds --features all / bigint / i128)',
           'call graph over-approximates (CHA)', 'std::process::exit terminates with the given status']


def run(ctx, rep):
    facts = ctx.facts()
    rep.rule('E10', e10_cli.__doc__.strip().split('\n')[0])
    e10_cli.run(facts, rep, 'i64', harness.REPO)
    if ctx.tier == 'thorough':
        for cfg, ity in (('ykh-i128', 'i128'), ('ykh-bigint', 'num_bigint::BigInt')):
            f2 = ctx.facts(cfg)
            for cmd in ('kh', 'ckh'):
                e10_cli.check_dispatch_table(f2, rep, cmd, ity)
