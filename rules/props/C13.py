"""C13 - matrix containers (thin): split/recombine offsets, Trans composition order, no floats. Entry values NOT decided."""
import e8b_matrix, e2_float, e27_trans
import e33_scans

LEVEL = 'other'
EXPLANATION = ('Only three structural clauses of C13 are decided: (F8) SpMat::divide4 subtracts exactly the row/column offsets that '
               'SpMat::combine_blocks adds, block by block, so the four-way split followed by recombination is the identity on indices; '
               '(E10b) a composed transform applies its factors in the same order before and after it is collapsed (forward, '
               'forward_mat = f_n..f_0; backward, backward_mat = b_0..b_n), read off the fold direction and multiplication side; (E2) no '
               'float-derived value is returned, branched on or stored by any SpMat / SpVec / Trans / Mat operation (density-like '
               'helpers return f64 by signature and are excluded). The entries produced by every other operation are NOT decided.')
TRUSTED = ['rustc MIR', 'Iterator::rev / fold semantics']


def scope(b):
    return any(b.defp.startswith(p) or b.defp.startswith(q) for p, q in (
        ('yui_matrix::sparse::sp_mat::', 'yui_matrix::<sparse::sp_mat::'), ('yui_matrix::sparse::sp_vec::', 'yui_matrix::<sparse::sp_vec::'),
        ('yui_matrix::sparse::trans::', 'yui_matrix::<sparse::trans::'), ('yui_matrix::dense::mat::', 'yui_matrix::<dense::mat::'),
        ('yui_matrix::sparse::util::', 'yui_matrix::<sparse::util::')))


def run(ctx, rep):
    facts = ctx.facts()
    rep.rule('E33', e33_scans.__doc__.strip().split('\n')[0])
    e33_scans.run_for(facts, rep, 'matrices', ['yui_matrix::dense::mat', 'yui_matrix::sparse::sp_mat', 'yui_matrix::sparse::sp_vec'], 7)
    import fixtures
    fixtures.run_controls(rep, ['E2'], lambda: ctx.reload())
    rep.rule('E8b', e8b_matrix.__doc__.strip().split('\n')[0])
    e8b_matrix.check_split_combine(facts, rep)
    e8b_matrix.check_stack_vecs(facts, rep)
    e8b_matrix.check_trans_order(facts, rep)
    e8b_matrix.check_index_maps(facts, rep)
    e8b_matrix.check_extend_cols(facts, rep)
    e2_float.apply(facts, rep, scope, 'C13', floor_scope=150)
    rep.rule('E27', e27_trans.__doc__.strip().split('\n')[0])
    e27_trans.run(facts, rep)
    e27_trans.check_sub(facts, rep)
