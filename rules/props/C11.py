"""C11 - parallel pivot search: protocol clauses decided for all schedules (E5)."""
import e5_locks

LEVEL = 'other'
EXPLANATION = ('Guard live-range dataflow + call-graph reachability + dominance/path checks on the MIR of yui_matrix::sparse::pivot, '
               'valid for EVERY interleaving because they are properties of the code, not of a run: (L3) the shared pivot table is '
               'committed to (PivotData::set through &mut *write_guard) only after update_diff(&*guard) and the no-retry edge of '
               'should_retry() under the SAME write-lock acquisition, the retry edge re-acquires and first refreshes the local '
               'snapshot; (L2) no read()/write()/borrow_mut() on the same object (or call into code acquiring the same lock type) '
               'while a guard is alive; (L1) no rayon entry reachable while the thread-local RefCell borrows or the write guard are '
               'alive (a stolen sibling task would double-borrow / self-deadlock: schedule-dependent). (L5) every column visited by init/traverse gets a non-None status, which the conflict test of update_diff presupposes. NOT decided: full completeness '
               'of update_diff\'s conflict test (acyclicity of the result), pivot-condition values, panics from top_sort.')
TRUSTED = ['rustc MIR (drop elaboration makes guard lifetimes explicit)', 'call graph over-approximates: CHA for trait calls, closures invocable by the callee they are passed to',
           'external crates other than rayon do not spawn rayon work', 'lock identity by receiver place / lock type']


def in_scope(b):
    return b.defp.startswith('yui_matrix::sparse::pivot::') or b.defp.startswith('yui::util::sync::')


def run(ctx, rep):
    facts = ctx.facts()
    import fixtures
    fixtures.run_controls(rep, ['E5'], lambda: ctx.reload())
    rep.rule('E5', e5_locks.__doc__.strip().split('\n')[0])
    summ = e5_locks.Summaries(facts)
    e5_locks.check_guards(facts, rep, summ, in_scope, 'pivot', 7)
    e5_locks.check_commit_protocol(facts, rep)
    e5_locks.check_marking(facts, rep)
    e5_locks.check_validation_predicate(facts, rep)
    e5_locks.check_candidate_predicate(facts, rep)
    e5_locks.check_head_col(facts, rep)
    sites = [s for s in summ.rayon_sites if s[0].startswith('yui_matrix::sparse::pivot')]
    rep.floor('E5 rayon entry sites in sparse::pivot', len(sites), 2)
    rep.inventory['L4 rayon entry sites (workspace)'] = sorted({'%s @ %s' % (s[0], s[1]) for s in summ.rayon_sites})
