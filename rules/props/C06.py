"""C06 - canonical classes and the s-type invariant (formula / ordering / table clauses only)."""
import e8_formulas, e12_pairing, e9_relations
import e33_scans, e34_lcinsert

LEVEL = 'other'
EXPLANATION = ('(E8 F1) ss = 2d + w - r + 1 is the same affine form - over the same atoms writhe and #Seifert circles - at all five '
               'sites (library kh and khi, both CLI printers); (E12 P1) in the builder the canonical cycles are transported before the '
               'complex is rewritten, for every deloop and every elimination, and the rewriting functions of the complex are '
               'reachable only through those wrappers; (E9 R6) cycles are delooped with the same death dots under the same labels as '
               'the complex, the labels forming a dual basis; (E8 F6) cycles and complex use the same elimination formula; (E9 R1/R4/R5/R7) the relation table, the zero / unit / should-evaluate predicates and every shortcut of part_eval are identities of the Frobenius algebra for every (h, t) - in particular at t != 0, where the Lee rank 2^components lives and which no test builds. NOT '
               'decided: that the classes are non-torsion, total rank 2^components, diagram independence, mirror sign, the '
               'crossing-change inequality.')
TRUSTED = ['rustc MIR', 'published formula ss = 2d + w - r + 1 (Sano-Sato)', 'call graph over-approximation for who-may-call']


def run(ctx, rep):
    facts = ctx.facts()
    rep.rule('E33', e33_scans.__doc__.strip().split('\n')[0])
    e33_scans.run_for(facts, rep, 'yui_link', ['yui_link::'], 3)
    rep.rule('E34', e34_lcinsert.__doc__.strip().split('\n')[0])
    e34_lcinsert.run(facts, rep)
    rep.rule('E8', e8_formulas.__doc__.strip().split('\n')[0])
    rep.rule('E12', e12_pairing.__doc__.strip().split('\n')[0])
    n = e8_formulas.check_ss(facts, rep)
    rep.floor('E8.F1 ss formula sites', n, 5)
    e12_pairing.check_cycle_transport(facts, rep)
    e12_pairing.check_canon_cycles(facts, rep)
    e9_relations.run(facts, rep, parts=('R1', 'R4', 'R6'))
    e8_formulas.check_elimination(facts, rep)
    e8_formulas.check_pivot_eligibility(facts, rep)
    e8_formulas.check_divisibility(facts, rep)
