"""C12 - sparse kernels: concurrency-structure clauses (E5). Values (A*X = Y, Schur identities) are NOT decided."""
import e5_locks, e17_schur, e31_decomp
import e33_scans

LEVEL = 'other'
EXPLANATION = ('Guard live-range dataflow + call-graph reachability on the MIR of yui_matrix::sparse::{triang,schur,decomp}: '
               '(L1) the thread-local scratch vector borrowed in solve_triangular_m is never held across a call that can reach '
               'rayon (re-entrancy under work stealing would double-borrow the cell and, worse, let two columns share one '
               'scratch buffer); (L2) the union-find mutex in group_cols is never re-locked while a guard from the same object is '
               'alive (std Mutex is not re-entrant: the temporaries\' lifetimes decide). (L6) no call made through a second acquisition of a lock receives a value that was read under an earlier, released guard of the same lock (lost update: the union-find write must re-derive the roots it links). Same on one thread and on many because the '
               'rules quantify over code paths. (E17) the block expressions of the Schur reduction, read from the code, satisfy s = d - c a^-1 b, '
               'F_tgt*M*B_src = s, F*B = 1 and the chain-map conditions in the free non-commutative algebra, under the contract of the '
               'triangular solvers. NOT decided: that the solvers meet that contract (A*X = Y, scratch returns to zero), the block decomposition.')
TRUSTED = ['rustc MIR (guard temporaries are explicit locals with explicit drops)', 'call graph over-approximation as in C11',
           'external crates other than rayon do not spawn rayon work']


def in_scope(b):
    return any(b.defp.startswith(p) for p in ('yui_matrix::sparse::triang::', 'yui_matrix::sparse::schur::', 'yui_matrix::sparse::decomp::',
                                               'yui::util::sync::', 'yui::misc::union_find::'))


def run(ctx, rep):
    facts = ctx.facts()
    rep.rule('E33', e33_scans.__doc__.strip().split('\n')[0])
    e33_scans.run_for(facts, rep, 'decomp', ['yui_matrix::sparse::decomp'], 1)
    import fixtures
    fixtures.run_controls(rep, ['E5'], lambda: ctx.reload())
    rep.rule('E5', e5_locks.__doc__.strip().split('\n')[0])
    summ = e5_locks.Summaries(facts)
    e5_locks.check_guards(facts, rep, summ, in_scope, 'sparse kernels', 5)
    e5_locks.check_stale_flow(facts, rep, in_scope, 'sparse kernels', 3)
    e5_locks.check_union_canonical(facts, rep)
    rep.rule('E31', e31_decomp.__doc__.strip().split('\n')[0])
    e31_decomp.run(facts, rep)
    e31_decomp.check_triang_storage(facts, rep)
    rep.rule('E17', e17_schur.__doc__.strip().split('\n')[0])
    e17_schur.run(facts, rep)
    sites = [s for s in summ.rayon_sites if any(s[0].startswith(p) for p in ('yui_matrix::sparse::triang', 'yui_matrix::sparse::schur', 'yui_matrix::sparse::decomp'))]
    rep.floor('E5 rayon entry sites in triang/schur/decomp', len(sites), 6)
    rep.inventory['L4 rayon entry sites (sparse kernels)'] = sorted({'%s @ %s' % (s[0], s[1]) for s in sites})
