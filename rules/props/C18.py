"""C18 - link diagrams: mutual consistency of the convention tables (E7). Partition of edges for every PD code NOT decided."""
import e7_tables
import e33_scans

LEVEL = 'other'
EXPLANATION = ('The crossing conventions of yui-link are encoded several times (pass / arcs / resolve / mirror / sign match / '
               'ori_pres_state / braid closure codes). Each table is read off the MIR path summaries of the function that encodes it '
               '(one path per match arm; arithmetic arms folded over the declared index domain {0..3}) and the tables are checked '
               'against each other: pass is a fixed-point-free involution whose orbits are the arcs; resolution commutes with mirror '
               'by flipping the bit; mirror is an involution keeping edges; the sign is defined exactly on entering at 1/3, odd under '
               'mirror and reversal; the orientation-preserving state yields an in/out-paired smoothing; braid-closure codes are '
               'counter-clockwise from a top under-end with the over strand\'s top entry carrying the generator\'s sign. These are '
               'necessary for well-defined traversal, orientation-derived signs, Seifert circles and writhe = exponent sum on EVERY '
               'diagram. NOT decided: that components partition the edge set for every PD code, braid component counts.')
TRUSTED = ['rustc MIR', 'PD convention: index 0 is the incoming under-strand end, ends listed counter-clockwise',
           'Sign::is_positive means Pos (by name)', 'CrossingType / Bit variant order read from the ADT facts']


def run(ctx, rep):
    facts = ctx.facts()
    rep.rule('E33', e33_scans.__doc__.strip().split('\n')[0])
    e33_scans.run_for(facts, rep, 'yui_link', ['yui_link::'], 3)
    rep.rule('E7', e7_tables.__doc__.strip().split('\n')[0])
    e7_tables.run(facts, rep)
