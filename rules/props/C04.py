"""C04 - graded Euler characteristic of Kh is the Jones polynomial (agreement of the degree conventions only)."""
import e8_formulas, e7_tables, e23_bigrade

LEVEL = 'other'
EXPLANATION = ('The identity chi_q(Kh) = Jones can only hold if the two independent encodings of the grading conventions agree: (F2) the '
               'global shift (-n_neg, n_pos - 2 n_neg) of KhComplex::deg_shift_for against the prefactor (-1)^{n_neg} q^{n_pos - 2 n_neg} of '
               'jones_polynomial, (F3) the generator bidegree h0 + |s|, q0 + sum deg(label) + #circles + |s| with deg(1) = 0, deg(X) = -2 '
               'against the state-sum weight (-q)^{|s|} (q + q^-1)^{#circles}. Both sides are read from the MIR as affine forms / tables '
               'and compared; any disagreement breaks the identity on every diagram with a crossing. (E23 G3-G5) the bigraded complex the ranks are read from contains every generator: its support is h_range x q_range over all generators of all summands, range_of is (min, max), and x lands in piece (i, j) iff q_deg(x) = j. (E7 T8/T9) the orientation sweep shares one visited set and tries every crossing as a start. NOT decided: the identity itself, '
               'isotopy invariance, q -> q^-1 under mirroring.')
TRUSTED = ['rustc MIR', 'atoms are identified by the accessor they come from (signed_crossing_nums, weight, label length)']


def run(ctx, rep):
    facts = ctx.facts()
    rep.rule('E8', e8_formulas.__doc__.strip().split('\n')[0])
    e8_formulas.check_shift(facts, rep)
    e8_formulas.check_gen_degrees(facts, rep)
    e7_tables.check_shared_visited(facts, rep)
    e7_tables.check_exhaustive_sweep(facts, rep)
    e7_tables.check_resolved_by(facts, rep)
    rep.rule('E23', e23_bigrade.__doc__.strip().split('\n')[0])
    e23_bigrade.run(facts, rep, parts=('G3', 'G4', 'G5'))
