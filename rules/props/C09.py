"""C09 - Smith normal form: structural clauses (E6 mirroring, E2 exact division, E21 divisibility chain as loop exit condition)."""
import e6_mirror, e2_float, e21_snfscan, e3_gcd

LEVEL = 'other'
EXPLANATION = ('Static analysis of yui_matrix::dense::snf on MIR: (M2) path summaries of the six wrappers prove that every row/column '
               'operation applied to the working matrix is mirrored into P, P^-1, Q, Q^-1 - whenever they are requested - with the same '
               'operation resp. its inverse (indices equal, scalar inverted/negated, 2x2 block [d,-c,-b,a]); (M1) nothing else mutates '
               'the working matrix, and it is replaced wholesale only together with P, P^-1 by the LLL preprocessing; (M3) '
               'preprocess < eliminate_all < diag_normalize; (M4) every caller passes a Bezout block of determinant 1; (E2) no float '
               'on any data/control path of the module (its exact divisions x/d reach QuadInt::div -> div_round). (E21) the divisibility chain is the exit condition of diag_normalize: a step answers true only after d[i] | d[i+1] was tested on an unmodified '
               'diagonal, a false answer restarts the scan from 0, the scan covers all pairs of the non-zero prefix. These are necessary '
               'for D = P*A*Q, P*P^-1 = I, Q*Q^-1 = I and d[i] | d[i+1] for every input and flag subset. NOT decided: that the result is diagonal, '
               'agreement with minors, termination.')
TRUSTED = ['rustc MIR', 'Mat::{swap,mul,add,elementary} implement the named elementary operations (conventions as documented)',
           'EucRing::gcdx returns Bezout coefficients (C15 decides only its normalisation)']


def scope(b):
    return b.defp.startswith('yui_matrix::dense::snf::') or b.defp.startswith('yui_matrix::<dense::snf::')


def run(ctx, rep):
    facts = ctx.facts()
    import fixtures
    fixtures.run_controls(rep, ['E6', 'E2'], lambda: ctx.reload())
    rep.rule('E6', e6_mirror.__doc__.strip().split('\n')[0])
    rep.rule('E2', e2_float.__doc__.strip().split('\n')[0])
    e6_mirror.run_snf(facts, rep)
    e6_mirror.check_flag_table(facts, rep)
    e2_float.apply(facts, rep, scope, 'C09', floor_scope=25)
    rep.rule('E21', e21_snfscan.__doc__.strip().split('\n')[0])
    e21_snfscan.run(facts, rep)
    rep.rule('E3', e3_gcd.__doc__.strip().split('\n')[0])
    e3_gcd.run(facts, rep)
    e3_gcd.check_bezout_loop(facts, rep)
