"""C16 - polynomial and linear-combination types form the free algebra they denote."""
import e1_typestate, specs, e8_formulas, e16_polyshort, e24_lex
import e33_scans, e34_lcinsert

LEVEL = 'other'
EXPLANATION = ('Typestate dataflow (clean/dirty, must-analysis over the MIR CFG incl. loops) for Lc (no zero coefficient stored) '
               'and MultiDeg (no zero exponent stored): every function that can dirty the map - by a write, by handing a &mut into '
               'the map to a non-preserving container method, or by calling the documented-dirty add_pair/add_pair_ref - reaches '
               'clean()/reduce() on every path before the value escapes; raw construction only at reviewed sites with a mechanical '
               'justification; fields private; callers of the dirty API anywhere in the workspace are checked. PolyBase holds only '
               'an Lc and uses only its clean-on-return API, so equality, is_zero and term count are those of the mathematical '
               'polynomial after any operation sequence (induction over the API). (F9) every graded-lex order compares total degree first, then lex. NOT decided: ring axioms, evaluation '
               'homomorphism, compatibility of the monomial orders with multiplication.')
TRUSTED = ['rustc MIR of the current tree', 'container-method preservation table (retain/remove/clear/... keep the invariant)',
           'values received from outside the body are clean (induction over obligations a-d)',
           'unwinding paths are not considered (a panic mid-update may leave a dirty value behind a caught unwind)']


def run(ctx, rep):
    facts = ctx.facts()
    rep.rule('E33', e33_scans.__doc__.strip().split('\n')[0])
    e33_scans.run_for(facts, rep, 'polynomials', ['yui::types::poly'], 2)
    rep.rule('E34', e34_lcinsert.__doc__.strip().split('\n')[0])
    e34_lcinsert.run(facts, rep)
    import fixtures
    fixtures.run_controls(rep, ['E1'], lambda: ctx.reload())
    rep.rule('E1', e1_typestate.__doc__.strip().split('\n')[0])
    e1_typestate.run_type(facts, rep, specs.LC, 'Lc', 25)
    e1_typestate.run_type(facts, rep, specs.MDEG, 'MultiDeg', 10)
    e8_formulas.check_grlex(facts, rep)
    rep.rule('E24', e24_lex.__doc__.strip().split('\n')[0])
    e24_lex.run(facts, rep)
    e24_lex.check_index_bounds(facts, rep)
    e16_polyshort.check_sub_negates(facts, rep)
    rep.rule('E16', e16_polyshort.__doc__.strip().split('\n')[0])
    e16_polyshort.run(facts, rep)
    rep.callsites += sum(len(facts.bodies[k].calls()) for k in rep.functions if k in facts.bodies)
