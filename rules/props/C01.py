"""C01 - Khovanov homology equals the cube-of-resolutions definition (structural clauses only)."""
import e1_typestate, specs

LEVEL = 'other'
EXPLANATION = ('Necessary structural conditions only (the isomorphism itself is NOT decided): (E1) Tng and Cob keep their sorted '
               'normal form on every path - Cob is a hash-map key of Lc<Cob,R>, so an unsorted Cob makes equal cobordisms distinct '
               'keys and the cancellation in d - c a^-1 b silently fails.')
TRUSTED = ['rustc MIR of the current tree', 'Vec order-preserving method table', 'values received from outside are normalised (induction)']


def run(ctx, rep):
    facts = ctx.facts()
    rep.rule('E1', e1_typestate.__doc__.strip().split('\n')[0])
    e1_typestate.run_type(facts, rep, specs.TNG, 'Tng', 8)
    e1_typestate.run_type(facts, rep, specs.COB, 'Cob', 15)
    rep.callsites += sum(len(facts.bodies[k].calls()) for k in rep.functions if k in facts.bodies)
