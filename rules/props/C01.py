"""C01 - Khovanov homology equals the cube-of-resolutions definition (structural necessary conditions only)."""
import e1_typestate, specs, e12_pairing, e8_formulas, e9_relations, e5_locks
import e33_scans

LEVEL = 'other'
EXPLANATION = ('Necessary structural conditions only - the isomorphism with the cube-of-resolutions homology is NOT decided. For every '
               'path / every (h,t): (E1) Tng and Cob keep their sorted normal form (Cob is a hash-map key of the linear combinations '
               'forming the differential: an unsorted Cob makes equal cobordisms distinct keys and cancellation in d - c a^-1 b '
               'silently fails); (E13) the doubly stored adjacency (out_edges / in_edges) is mutated symmetrically; (E8) the two genus '
               'recomputations agree with 2g = 2 - (chi1 + chi2 + b) + a, Euler number and degree formulas are the published ones, the '
               'complex and the cycles use the same elimination formula d - c a^-1 b in that operand order; (E9) the relation tables '
               '(neck cutting, XY = t, X^2 = hX + t, Y^2 = -hY + t, closed evaluations, zero/unit predicates, delooping dual basis) are '
               'identities of the Frobenius algebra Z[h,t][X]/(X^2 - hX - t) - checked by exact polynomial arithmetic on tables read '
               'from the MIR, which matters because nearly all tests run at h = t = 0; (E5) no lock re-acquisition / rayon re-entry '
               'under the write guard of connect_edges.')
TRUSTED = ['rustc MIR of the current tree', 'Vec order-preserving method table', 'values received from outside are normalised (induction)',
           'Frobenius algebra and degrees as stated in the property anchor (Y = X - h, deg h = -2, deg t = -4)']


def in_kh(b):
    return b.defp.startswith('yui_kh::kh::internal::v2::tng_complex::')


def run(ctx, rep):
    facts = ctx.facts()
    rep.rule('E9.R11', 'Cob::stack drops an operand only when it is an identity cobordism (guards folded over a finite model of cobordisms)')
    e9_relations.check_stack_shortcuts(facts, rep)
    rep.rule('E33', e33_scans.__doc__.strip().split('\n')[0])
    e33_scans.run_for(facts, rep, 'Bar-Natan category', ['yui_kh::kh::internal', 'LcCobTrait'], 12)
    import fixtures
    fixtures.run_controls(rep, ['E1', 'E5'], lambda: ctx.reload())
    rep.rule('E1', e1_typestate.__doc__.strip().split('\n')[0])
    rep.rule('E13', 'symmetric adjacency update')
    rep.rule('E8', e8_formulas.__doc__.strip().split('\n')[0])
    rep.rule('E9', e9_relations.__doc__.strip().split('\n')[0])
    e1_typestate.run_type(facts, rep, specs.TNG, 'Tng', 8)
    e1_typestate.run_type(facts, rep, specs.COB, 'Cob', 15)
    e12_pairing.check_adjacency(facts, rep)
    e8_formulas.check_cob_formulas(facts, rep)
    e8_formulas.check_elimination(facts, rep)
    e8_formulas.check_pivot_eligibility(facts, rep)
    e8_formulas.check_koszul_sign(facts, rep)
    e9_relations.run(facts, rep, parts=('R1', 'R4', 'R6'))
    summ = e5_locks.Summaries(facts)
    e5_locks.check_guards(facts, rep, summ, in_kh, 'tng_complex', 1)
    rep.callsites += sum(len(facts.bodies[k].calls()) for k in rep.functions if k in facts.bodies)
