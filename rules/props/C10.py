"""C10 - LLL / HNF: structural clauses (E6 mirroring, E2 exact nearest-integer quotient)."""
import e6_mirror, e2_float, e14_homog, e25_lllorder, e26_hnfnorm

LEVEL = 'other'
EXPLANATION = ('Static analysis of yui_matrix::dense::lll on MIR: (M2) LLLData::{swap, mul_row, add_row_to} and the final row reversal of '
               'the HNF mirror every row operation on the basis into P (same operation) and P^-1 (inverse operation on columns: '
               'swap_cols, mul_col by r^-1, add_col_to(k,i,-r)); (M1) no other code mutates the basis; (E2) no float on any data/control '
               'path of the module, in particular the size-reduction quotient div_round (an inexact quotient beyond 2^53 voids size '
               'reduction and termination). (E14) every exact update formula of the integral Gram-Schmidt state (swap, add_row_to, size-reduction quotient, Lovasz test) is homogeneous under scaling of the basis - dimensional analysis with deg det[j] = deg lambda[(i,j)] = 2(j+1). Necessary for H = P*A, P*P^-1 = I and for the maintained state being the Gram-Schmidt data on every input. (E25) size reduction runs against the rows in descending order, as the write set of add_row_to forces. (E26) a pivot-normalisation site reaches the last working row. NOT decided: echelon form, Lovasz '
               'condition, termination.')
TRUSTED = ['rustc MIR', 'Mat row/column operations implement the named elementary operations']


def scope(b):
    return b.defp.startswith('yui_matrix::dense::lll::') or b.defp.startswith('yui_matrix::<dense::lll::')


def run(ctx, rep):
    facts = ctx.facts()
    import fixtures
    fixtures.run_controls(rep, ['E6', 'E2'], lambda: ctx.reload())
    rep.rule('E6', e6_mirror.__doc__.strip().split('\n')[0])
    rep.rule('E2', e2_float.__doc__.strip().split('\n')[0])
    e6_mirror.run_lll(facts, rep)
    rep.rule('E14', e14_homog.__doc__.strip().split('\n')[0])
    e14_homog.run(facts, rep)
    rep.rule('E25', e25_lllorder.__doc__.strip().split('\n')[0])
    e25_lllorder.run(facts, rep)
    rep.rule('E26', e26_hnfnorm.__doc__.strip().split('\n')[0])
    e26_hnfnorm.run(facts, rep)
    e2_float.apply(facts, rep, scope, 'C10', floor_scope=35)
