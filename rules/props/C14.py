"""C14 - scalar types are exact commutative rings with canonical representatives."""
import e1_ratio, e2_float, opvariants, e20_quadint

LEVEL = 'other'
EXPLANATION = ('Static analysis of the MIR of yui::types::{ratio,ff,f2,qint}: (E1) path-sensitive symbolic summaries prove '
               'that every function that can touch Ratio.numer/denom returns with the pair reduced - via reduce() (whose own '
               'return paths are checked: unit-normalised denominator, divided by the gcd or a justifying test), a whole-value '
               'update, or one of two reviewed shortcut shapes (canonical copy; cross-cancelled product); raw construction only '
               'at reviewed sites; fields private. Hence structural == is equality in Q after any operation sequence (induction '
               'over the API). FF<p> is built only from rem_euclid results / 0 / 1. (E2) no float on any data or control path of '
               'Add/Sub/Mul/Neg/Eq/Ord/Zero/One of the scalar types (order consistent with Eq for all magnitudes). (OPV) every '
               'by-value / by-ref / assigning operator variant is a pure in-order delegation to the single hand-written body. '
               '(E20) the QuadInt product, conjugate and norm formulas are polynomial identities of Z[w] symbolically in D, per congruence class of D and per zero-test shortcut. '
               'NOT decided: the ring axioms of the machine / big integer types themselves (num-traits, num-bigint are trusted), overflow.')
TRUSTED = ['rustc MIR of the current tree', 'x op= y on a field behaves as x := op(x, y) (operator trait contract)',
           'theorem: a cross-cancelled product of reduced fractions is reduced; EucRing::gcd returns the normalised gcd (C15/E3)',
           'code outside yui::types::ratio cannot reach the private fields (checked from the ADT facts)']

SCALARS = ['yui::types::ratio::Ratio', 'yui::types::ff::FF', 'yui::types::f2::FF2', 'yui::types::qint::QuadInt']
RING_TRAITS = ('std::ops::Add', 'std::ops::Sub', 'std::ops::Mul', 'std::ops::Neg', 'std::ops::AddAssign', 'std::ops::SubAssign',
               'std::ops::MulAssign', 'std::cmp::PartialEq', 'std::cmp::Eq', 'std::cmp::PartialOrd', 'std::cmp::Ord',
               'num_traits::Zero', 'num_traits::One', 'std::hash::Hash')


def scope(b):
    if b.crate != 'yui':
        return False
    tr = e2_float.trait_of(b) or ''
    if tr not in RING_TRAITS:
        return False
    st = (b.impl or {}).get('self_ty', '')
    return any(x in st for x in ('ratio::Ratio', 'ff::FF', 'f2::FF2', 'qint::QuadInt')) or st in ('T', '&T')


def run(ctx, rep):
    facts = ctx.facts()
    import fixtures
    fixtures.run_controls(rep, ['E2'], lambda: ctx.reload())
    rep.rule('E1-ratio', e1_ratio.__doc__.strip().split('\n')[0])
    rep.rule('E2', e2_float.__doc__.strip().split('\n')[0])
    rep.rule('OPV', opvariants.__doc__.strip().split('\n')[0])
    e1_ratio.run(facts, rep)
    e1_ratio.check_ff(facts, rep)
    e1_ratio.check_mul_cancels_first(facts, rep)
    e1_ratio.check_quot_rem_pairs(facts, rep)
    e2_float.apply(facts, rep, scope, 'C14', floor_scope=100)
    opvariants.run(facts, rep, SCALARS, 130)
    rep.rule('E20', e20_quadint.__doc__.strip().split('\n')[0])
    e20_quadint.selftest(rep)
    e20_quadint.run(facts, rep, parts=('Q1', 'Q2'))
    rep.callsites += sum(len(facts.bodies[k].calls()) for k in rep.functions if k in facts.bodies)
