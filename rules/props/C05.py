"""C05 - every Khovanov complex is a graded chain complex over any ring (table clauses only; d.d = 0 NOT decided)."""
import e9_relations, e8_formulas, e1_typestate, specs
import e33_scans

LEVEL = 'other'
EXPLANATION = ('The differential of the Khovanov complex is assembled from cobordisms rewritten by CobComp::part_eval. Read from the MIR '
               'decision tree of that function and checked with exact arithmetic in Z[h,t][X]/(X^2-hX-t) on a finite grid (closed x g<=3 x '
               'x,y<=4; each rewriting step is local, so this is an induction step): every rewrite is an identity (R1), every rewrite '
               'is homogeneous for deg X = Y = handle = -2, deg h = -2, deg t = -4 (R2) - hence applying it cannot break d.d = 0 or '
               'quantum-degree homogeneity over ANY commutative ring, polynomial parameters included, and commutes with '
               'specialisation (H,T) -> (h,t); nothing falls through (R4); CobComp::deg = chi - e/2 - 2*dots (E8); normal form kept (E1). '
               'NOT decided: d.d = 0 itself, the homological degree of d, equality of homology after specialisation.')
TRUSTED = ['rustc MIR', 'the Frobenius algebra and degrees named in the property', 'grid bound: arms compare g, x, y only against 0, 1, 2 and the parity of g']


def run(ctx, rep):
    facts = ctx.facts()
    rep.rule('E9.R11', 'Cob::stack drops an operand only when it is an identity cobordism (guards folded over a finite model of cobordisms)')
    e9_relations.check_stack_shortcuts(facts, rep)
    rep.rule('E33', e33_scans.__doc__.strip().split('\n')[0])
    e33_scans.run_for(facts, rep, 'Bar-Natan category', ['yui_kh::kh::internal', 'LcCobTrait'], 12)
    import fixtures
    fixtures.run_controls(rep, ['E1'], lambda: ctx.reload())
    rep.rule('E9', e9_relations.__doc__.strip().split('\n')[0])
    rep.rule('E8', 'CobComp::euler_num / deg formulas')
    e9_relations.run(facts, rep, parts=('R1', 'R4'))
    e8_formulas.check_cob_formulas(facts, rep)
    e8_formulas.check_elimination(facts, rep)
    e8_formulas.check_pivot_eligibility(facts, rep)
    e8_formulas.check_koszul_sign(facts, rep)
    e1_typestate.run_type(facts, rep, specs.COB, 'Cob', 15)
