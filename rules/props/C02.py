"""C02 - Khovanov homology is a link invariant with mirror duality: the structural clauses of its listed mechanisms.

Invariance itself quantifies over pairs of diagrams and is NOT decided. Decided are necessary conditions, one per
anchored mechanism, each a statement about the shape of the code that holds for every diagram:
  E22 H1-H4  the crossing-choice heuristic only orders the crossings: every crossing is consumed exactly once;
  E7  T3-T5  mirror swaps the crossing type and keeps the edges, resolution commutes with it by flipping the bit, the
             sign table is odd under it (mirror image <=> all signs flip, the input of the (-i,-j) duality);
  E7  T7     braid closure pushes, for sigma_i^{+-1}, the counter-clockwise code starting at the incoming under end
             with the sign the generator names (sigma sigma^-1 is a Reidemeister II pair only then);
  E9  R8     a circle is based iff it contains the base edge - the same predicate for the complex and the cycles;
  E8  F2     the global shift is (-n_neg, n_pos - 2 n_neg) - Reidemeister I invariance fixes exactly this formula.
"""
import e7_tables, e8_formulas, e22_choose, e9_relations, e4_bitseq

LEVEL = 'other'
EXPLANATION = ('Static analysis (MIR path summaries, literal tables folded over their finite domains, affine form extraction) of the four '
               'mechanisms the property is anchored in: (E22) choose_next answers None only when the selector over all remaining crossings '
               'found nothing and otherwise hands out exactly the entry it removes; process_all appends every crossing handed out; crossings '
               'are removed nowhere else - so the heuristic decides the order and nothing else. (E7) mirror exchanges X/Xm keeping edges, '
               'commutes with resolution by flipping the bit, the sign table is odd under it; the braid closure code of a generator is '
               'counter-clockwise from a top under-end and carries the generator sign. (E8.F2) the degree shift is (-n_neg, n_pos - 2 n_neg '
               '[+1 reduced]) and agrees with the Jones normalisation. These are necessary for invariance under Reidemeister / braid / Markov '
               'moves and for mirror duality on every diagram; invariance itself (isomorphic tables for two diagrams) is NOT decided.')
TRUSTED = ['rustc MIR', 'Iterator::max_by_key returns None iff the iterator is empty; Vec::remove(i) returns the i-th element (std contracts)',
           'PD convention: index 0 is the incoming under-strand end, ends listed counter-clockwise']


def run(ctx, rep):
    facts = ctx.facts()
    rep.rule('E9.R11', 'Cob::stack drops an operand only when it is an identity cobordism (guards folded over a finite model of cobordisms)')
    e9_relations.check_stack_shortcuts(facts, rep)
    rep.rule('E22', e22_choose.__doc__.strip().split('\n')[0])
    rep.rule('E7', e7_tables.__doc__.strip().split('\n')[0])
    rep.rule('E8.F2', 'global degree shift formula (-n_neg, n_pos - 2 n_neg) and its agreement with the Jones normalisation')
    e22_choose.run(facts, rep)
    e7_tables.run(facts, rep)
    e8_formulas.check_shift(facts, rep)
    e8_formulas.check_koszul_sign(facts, rep)     # attaching the crossings in another order changes which factor is the left one: the sign must be there on every path
    rep.rule('E9.R8', 'one based-circle predicate (contains) for the complex and the tracked cycles: the reduced theory does not depend on the edge numbering')
    e9_relations.check_based_predicate(facts, rep)
    rep.rule('E4.O6', 'the resolution state (BitSeq) is never truncated: weight = homological position stays right beyond 32 crossings (R-moves may push a diagram there)')
    e4_bitseq.check_no_narrowing(facts, rep)
    rep.callsites += sum(len(facts.bodies[k].calls()) for k in rep.functions if k in facts.bodies)
