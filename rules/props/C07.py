"""C07 - homology over a Euclidean domain: assembly of rank / torsion / coordinate maps from the SNF blocks (E19)."""
import e19_homcalc, e3_gcd, e2_float, e21_snfscan

LEVEL = 'other'
EXPLANATION = ('Given Smith normal forms with P*P^-1 = 1, Q*Q^-1 = 1 (C09), the homology record is assembled from row/column ranges of those '
               'transforms. Read from the MIR of HomologyCalc and decided by range algebra (X[A rows]*X^-1[B cols] is 1 for A = B, 0 for '
               'disjoint A, B): the chain->homology map P and the homology->chain map Q satisfy P*Q = 1 block by block (coordinates of the '
               'generators are the standard basis); the outgoing differential is restricted with exactly the columns of P1^-1 that Q uses; '
               'every transform that is unwrapped was requested from snf under the same condition (no panic for any flag combination); '
               'rank = n - rank(d_in) - rank(d_out) with the torsion taken from the non-unit factors of d_in; no float decides a value. '
               'NOT decided: that the generators are cycles and boundaries map to zero (needs the SNF equations as values), SNF itself (C09), '
               'composition of coordinate maps for summands (conc/summand.rs).')
TRUSTED = ['rustc MIR', 'SNF transforms are mutually inverse (C09 decides the mirroring discipline that guarantees it)',
           'non-unit invariant factors come last among the non-zero ones (divisibility chain)', 'submat_rows / submat_cols / stack / concat semantics']


def scope(b):
    return b.defp.startswith('yui_homology::utils::homology_calc::')


def run(ctx, rep):
    facts = ctx.facts()
    import fixtures
    fixtures.run_controls(rep, ['E2'], lambda: ctx.reload())
    rep.rule('E19', e19_homcalc.__doc__.strip().split('\n')[0])
    e19_homcalc.run(facts, rep)
    e19_homcalc.check_summand(facts, rep)
    rep.rule('E3', e3_gcd.__doc__.strip().split('\n')[0])
    e3_gcd.run(facts, rep)
    e3_gcd.check_bezout_loop(facts, rep)
    rep.rule('E21', e21_snfscan.__doc__.strip().split('\n')[0])
    e21_snfscan.run(facts, rep)
    e2_float.apply(facts, rep, scope, 'C07', floor_scope=5)
