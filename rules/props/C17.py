"""C17 - bit sequences behave as sequences of at most 64 bits (E4)."""
import e4_bitseq

LEVEL = 'proof'
EXPLANATION = ('Abstract interpretation (linear inequalities + bit-width bounds, Fourier-Motzkin entailment) of the '
               'real MIR of every body of yui::misc::bitseq, for all lengths 0..64 and all arguments symbolically: '
               '(O1) every compiler-inserted overflow/shift check and every pow call is proved, so boundary and '
               'over-capacity cases are rejected by explicit asserts and never wrap silently; (O2) len <= 64 and '
               'width(val) <= len are re-established at every return for every &mut BitSeq and returned BitSeq; '
               '(O3) fields private, every literal proves O2; (O4) Ord is the chain (len, weight, val) covering all '
               'Eq fields. NOT decided: that each operation moves the right bits (equivalence with Vec<bool>).')
TRUSTED = ['rustc MIR semantics of checked arithmetic (dev profile) for the current /repo tree',
           'in-house Fourier-Motzkin entailment and width algebra (rules/e4_bitseq.py)',
           'explicit assert!s are the documented preconditions/rejections (their strength is not judged)',
           '<uN as Default>::default() == 0; code outside misc::bitseq cannot touch the private fields']


def run(ctx, rep):
    facts = ctx.facts()
    import fixtures
    fixtures.run_controls(rep, ['E4'], lambda: ctx.reload())
    rep.rule('E4', e4_bitseq.__doc__.strip().split('\n')[0])
    e4_bitseq.run(facts, rep)
    e4_bitseq.check_display(facts, rep)
    e4_bitseq.check_no_narrowing(facts, rep)
    e4_bitseq.check_from_iter_rejects(facts, rep)
    e4_bitseq.check_from_str_language(facts, rep)
    rep.callsites += sum(len(facts.bodies[k].calls()) for k in rep.functions if k in facts.bodies)
