"""C19 - involutive Khovanov (thin): tau stays an involution on keys; ssi formula. Cone / homology NOT decided."""
import e7b_khi, e8_formulas

LEVEL = 'other'
EXPLANATION = ('The involutive complex is the cone of 1 + tau; d.d = 0 there needs tau.tau = id on generators. Decided from the MIR of the '
               'symmetric builder: single entries of key_map are written only through add_key_pair / remove_key_pair, both symmetric '
               'in (k, tau k); the literal key tables are the coordinate swap (off-axis pair) and the identity (on-axis); connecting '
               'combines key pairs componentwise. Plus (F1) both involutive s-invariants use 2d + w - r + 1 over the same writhe and '
               'Seifert-circle atoms (hence s0 = s1 mod 2 is a statement about d0, d1 only). NOT decided: that the homology equals that '
               'of the mapping cone, agreement with ordinary Kh, s0 <= s1, behaviour under mirroring.')
TRUSTED = ['rustc MIR', 'HashMap insert/remove semantics']


def run(ctx, rep):
    facts = ctx.facts()
    rep.rule('E7b', e7b_khi.__doc__.strip().split('\n')[0])
    e7b_khi.run(facts, rep)
    e7b_khi.check_doubling(facts, rep)
    e7b_khi.check_half_grouping(facts, rep)
    e7b_khi.check_half_selection(facts, rep)
    e7b_khi.check_ssi_selection(facts, rep)
    e7b_khi.check_cone(facts, rep)
    e7b_khi.check_inv_link(facts, rep)
    e7b_khi.check_sym_base_point(facts, rep)
    import e22_choose
    e22_choose.check_consume(facts.bodies['yui_kh::khi::internal::v2::builder::SymTngBuilder::<R>::process_all'], rep, 'SymTngBuilder::process_all')
    n = e8_formulas.check_ss(facts, rep, sites=[s for s in e8_formulas.SS_SITES if 'khi' in s[0]])
    rep.floor('E8.F1 ssi formula sites', n, 3)
