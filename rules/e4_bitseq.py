"""E4 - abstract interpretation of `yui::misc::bitseq` (all lengths 0..64, all arguments, symbolic).

Per body and per path (symex.py, loops widened: every local assigned in a loop is havoced at the
loop head, so one generic iteration is analysed) the engine keeps a conjunction K of linear
inequalities over integer atoms and *width* atoms W(x) (an upper bound on the number of
significant bits of a u64 value x) and discharges, by exact Fourier-Motzkin elimination:

  O1  every compiler-inserted overflow / shift-amount check (`Assert` with an Overflow message)
      is provably true, and every `uN::pow` call is provably in range. A rejection that exists
      only as an overflow trap is no rejection in a build without overflow checks.
  O2  at every normal return, every `&mut BitSeq` argument and every returned `BitSeq` satisfies
      len <= 64 and width(val) <= len  (assumed at entry for every BitSeq the body receives).
  O3  the fields are private and every `BitSeq { .. }` literal proves O2 at construction.
  O4  Ord::cmp is the lexicographic chain (len, weight, val): total, and consistent with the
      derived Eq because its keys include every Eq field.

Width algebra: x&y -> min, x|y, x^y -> max, x<<k -> min(64, w+k), x>>k -> max(0, w-k), !x -> 64,
(1<<n)-1 -> n, constants -> bit length, a <= b  =>  w(a) <= w(b), a < (1<<k) => w(a) <= k.
In-module callees returning u64 are summarised by the linear width bounds valid on all of
their return paths (template: each integer argument, 0, 1, 64).
Explicit `assert!`s are the documented preconditions / rejections and become path conditions.
NOT decided: that the surviving bits are the right ones (equivalence with a list of booleans).
"""
import re
from fractions import Fraction
from symex import SymEx, show, TooManyPaths, subterms
from core import op_place, op_const

MODULE = 'yui::misc::bitseq::'
ADT = 'yui::misc::bitseq::BitSeq'
MAXW = 64
UMAX = (1 << 64) - 1
UNSIGNED = {'u8': 8, 'u16': 16, 'u32': 32, 'u64': 64, 'usize': 64, 'u128': 128}


# ------------------------------------------------------------------ linear arithmetic

class Lin:
    __slots__ = ('c', 'k')

    def __init__(self, c=None, k=0):
        self.c = dict(c or {})
        self.k = Fraction(k)

    @staticmethod
    def const(v):
        return Lin({}, v)

    @staticmethod
    def var(a):
        return Lin({a: Fraction(1)}, 0)

    def __add__(self, o):
        r = Lin(self.c, self.k + o.k)
        for a, v in o.c.items():
            r.c[a] = r.c.get(a, 0) + v
            if r.c[a] == 0:
                del r.c[a]
        return r

    def __neg__(self):
        return Lin({a: -v for a, v in self.c.items()}, -self.k)

    def __sub__(self, o):
        return self + (-o)

    def scale(self, f):
        f = Fraction(f)
        if f == 0:
            return Lin()
        return Lin({a: v * f for a, v in self.c.items()}, self.k * f)

    def is_const(self):
        return not self.c

    def __repr__(self):
        parts = []
        for a, v in self.c.items():
            nm = a if isinstance(a, str) else show(a)
            parts.append(('%s*' % v if v != 1 else '') + nm)
        parts.append(str(self.k))
        return ' + '.join(parts)


def fm_infeasible(cons, limit=4000):
    """cons: list of Lin meaning lin >= 0. True iff the system has no rational solution."""
    cons = [c for c in cons]
    while True:
        for c in cons:
            if c.is_const() and c.k < 0:
                return True
        cons = [c for c in cons if not c.is_const()]
        if not cons:
            return False
        # choose the variable with the fewest pos*neg combinations
        vars_ = {}
        for c in cons:
            for a, v in c.c.items():
                p, n = vars_.get(a, (0, 0))
                vars_[a] = (p + (v > 0), n + (v < 0))
        a = min(vars_, key=lambda x: vars_[x][0] * vars_[x][1])
        pos = [c for c in cons if c.c.get(a, 0) > 0]
        neg = [c for c in cons if c.c.get(a, 0) < 0]
        rest = [c for c in cons if a not in c.c]
        new = rest
        for p in pos:
            for n in neg:
                r = p.scale(1 / p.c[a]) + n.scale(1 / -n.c[a])
                r.c.pop(a, None)
                new.append(r)
        if len(new) > limit:
            return False      # give up: not proved (sound)
        cons = new


def entails(K, goal):
    """K |- goal >= 0 over the integers (goal negated as goal <= -1)"""
    return fm_infeasible(K + [(-goal) - Lin.const(1)])


# ------------------------------------------------------------------ width trees

def wl(l):
    return ('lin', l)


def w_add(tree, l):
    k = tree[0]
    if k == 'lin':
        return ('lin', tree[1] + l)
    return (k, [w_add(x, l) for x in tree[1]])


def w_show(tree):
    if tree[0] == 'lin':
        return repr(tree[1])
    return '%s(%s)' % (tree[0], ', '.join(w_show(x) for x in tree[1]))


def prove_w_le(K, tree, bound):
    """K |- tree <= bound"""
    k = tree[0]
    if k == 'lin':
        return entails(K, bound - tree[1])
    if k == 'max':
        return all(prove_w_le(K, x, bound) for x in tree[1])
    if k == 'min':
        return any(prove_w_le(K, x, bound) for x in tree[1])
    return False


def w_upper_lins(tree):
    """linear expressions each of which is >= tree (so `x <= tree` implies nothing, but
    W <= tree implies W <= each of them when tree is a min / lin)"""
    if tree[0] == 'lin':
        return [tree[1]]
    if tree[0] == 'min':
        out = []
        for x in tree[1]:
            out += w_upper_lins(x)
        return out
    return []


# ------------------------------------------------------------------ the per-path context

class Cx:
    def __init__(self, eng, body):
        self.eng = eng
        self.body = body
        self.K = []
        self.known = set()
        self.site_defp = {}     # call site id -> def path of the body the call sits in (inlined frames)

    def add(self, lin):
        self.K.append(lin)

    def atom(self, t, unsigned_bits=None):
        """integer atom; registers its type facts once"""
        if t not in self.known:
            self.known.add(t)
            bits = unsigned_bits
            if bits is None:
                bits = self.type_bits(t)
            if bits:
                self.K.append(Lin.var(t))                                  # t >= 0
                self.K.append(Lin.const((1 << bits) - 1) - Lin.var(t))     # t <= MAX
            if t[0] == 'field' and t[2] == 'len':
                self.K.append(Lin.const(MAXW) - Lin.var(t))                # invariant: len <= 64
        return Lin.var(t)

    def watom(self, t):
        w = ('W', t)
        if w not in self.known:
            self.known.add(w)
            self.K.append(Lin.var(w))
            self.K.append(Lin.const(MAXW) - Lin.var(w))
            if t[0] == 'field' and t[2] == 'val':
                ln = ('field', t[1], 'len')
                self.K.append(self.atom(ln, 64) - Lin.var(w))              # invariant: w(val) <= len
        return Lin.var(w)

    def type_bits(self, t):
        b = self.body
        ty = None
        if t[0] == 'arg':
            ty = b.local_ty(t[1])
        elif t[0] == 'loopvar' and isinstance(t[2], int):
            ty = b.local_ty(t[2])
        elif t[0] == 'field' and t[2] in ('len', 'val', '^val', '^len'):
            ty = 'u64'
        elif t[0] == 'call':
            ty = self.eng.call_ret_ty.get((self.site_defp.get(t[3], b.defp), t[3].split(':')[-1].split('.')[0]))
        elif t[0] == 'field' and t[2].startswith('^'):
            ty = self.eng.upvar_ty.get((b.defp, t[2]))
        elif t[0] == 'deref':
            return self.type_bits(t[1]) if t[1][0] != 'arg' else UNSIGNED.get(b.local_ty(t[1][1]).lstrip('&').replace('mut ', '').strip())
        if ty is None:
            return None
        return UNSIGNED.get(ty.lstrip('&').replace('mut ', '').strip())

    # ---- linear value of an integer term
    def lin(self, t):
        k = t[0]
        if k == 'const':
            return Lin.const(t[1]) if isinstance(t[1], int) else None
        if k == 'cast':
            inner = self.lin(t[2])
            if inner is None:
                return None
            to_bits = UNSIGNED.get(t[3])
            from_bits = UNSIGNED.get(t[4] or '')
            if to_bits and from_bits and to_bits >= from_bits:
                return inner
            if to_bits and entails(self.K, Lin.const((1 << to_bits) - 1) - inner) and entails(self.K, inner):
                return inner     # provably in range: the narrowing cast is the identity
            return self.atom(t, to_bits)
        if k == 'field' and t[1][0] == 'bin' and t[2] == '0':
            op, a, b = t[1][1], t[1][2], t[1][3]
            la, lb = self.lin(a), self.lin(b)
            if la is None or lb is None:
                return None
            if op == 'AddWithOverflow':
                return la + lb
            if op == 'SubWithOverflow':
                return la - lb
            if op == 'MulWithOverflow':
                if la.is_const():
                    return lb.scale(la.k)
                if lb.is_const():
                    return la.scale(lb.k)
            return None
        if k == 'bin':
            op, a, b = t[1], t[2], t[3]
            if op in ('Add', 'Sub', 'AddUnchecked', 'SubUnchecked'):
                la, lb = self.lin(a), self.lin(b)
                if la is None or lb is None:
                    return None
                return la + lb if op.startswith('Add') else la - lb
            if op in ('BitAnd', 'BitOr', 'BitXor', 'Shl', 'Shr', 'Not'):
                return self.atom(t, 64)   # a bit-vector value used as an integer: opaque, but >= 0
            return None
        if k == 'call' and (t[1].endswith('default::Default::default') or t[1].endswith('Default::default')) and not t[2]:
            return Lin.const(0)          # trusted: <uN as Default>::default() == 0
        if k in ('arg', 'field', 'loopvar', 'call', 'deref', 'post', 'index'):
            return self.atom(t)
        return None

    # ---- width of a u64 term
    def width(self, t):
        k = t[0]
        if k == 'const':
            if isinstance(t[1], int) and t[1] >= 0:
                return wl(Lin.const(t[1].bit_length()))
            return wl(Lin.const(MAXW))
        if k == 'cast':
            return self.width(t[2])
        if k == 'un' and t[1] == 'Not':
            return wl(Lin.const(MAXW))
        if k == 'bin':
            op, a, b = t[1], t[2], t[3]
            if op == 'BitAnd':
                return ('min', [self.width(a), self.width(b)])
            if op in ('BitOr', 'BitXor'):
                return ('max', [self.width(a), self.width(b)])
            if op in ('Shl', 'ShlUnchecked'):
                lk = self.lin(b)
                if lk is None:
                    return wl(Lin.const(MAXW))
                return ('min', [wl(Lin.const(MAXW)), w_add(self.width(a), lk)])
            if op in ('Shr', 'ShrUnchecked'):
                lk = self.lin(b)
                if lk is None:
                    return self.width(a)
                return ('max', [wl(Lin.const(0)), w_add(self.width(a), -lk)])
            return wl(Lin.const(MAXW))
        if k == 'field' and t[1][0] == 'bin' and t[2] == '0':
            op, a, b = t[1][1], t[1][2], t[1][3]
            if op == 'SubWithOverflow':
                # (1 << n) - 1  has exactly n significant bits
                if b == ('const', 1) and a[0] == 'bin' and a[1] == 'Shl' and a[2] == ('const', 1):
                    ln = self.lin(a[3])
                    if ln is not None:
                        return wl(ln)
                return self.width(a)     # a - b <= a  (no wrap: separately proved at the assert)
            if op == 'AddWithOverflow':
                return ('max', [w_add(self.width(a), Lin.const(1)), w_add(self.width(b), Lin.const(1))])
            return wl(Lin.const(MAXW))
        if k == 'call':
            if t[1].endswith('default::Default::default') and not t[2]:
                return wl(Lin.const(0))
            summ = self.eng.width_summary(t[1])
            if summ is not None:
                outs = []
                for tpl in summ:
                    if tpl[0] == 'const':
                        outs.append(wl(Lin.const(tpl[1])))
                    else:
                        la = self.lin(t[2][tpl[1] - 1]) if tpl[1] - 1 < len(t[2]) else None
                        if la is not None:
                            outs.append(wl(la))
                if outs:
                    return ('min', outs)
            if t[1].endswith('reverse_bits'):
                return wl(Lin.const(MAXW))
            return wl(self.watom(t))
        if k in ('arg', 'field', 'loopvar', 'deref', 'post', 'index'):
            return wl(self.watom(t))
        return wl(Lin.const(MAXW))

    # ---- value lower / upper bound of a bit-vector term (for unsigned subtraction)
    def lbv(self, t):
        if t[0] == 'const' and isinstance(t[1], int):
            return t[1]
        if t[0] == 'bin' and t[1] == 'Shl' and t[2] == ('const', 1):
            return 1       # 1 << n >= 1 whenever n < 64 (proved at the preceding shift check)
        return 0

    # ---- assume a branch outcome
    def assume(self, cond, value):
        """cond is the switched-on term; value is the taken target value (0 = false, 'else'/1 = true)"""
        truth = None
        if value == 0:
            truth = False
        elif value in ('else', 1):
            truth = True
        if truth is None:
            return
        if cond[0] == 'un' and cond[1] == 'Not':
            return self.assume(cond[2], 'else' if not truth else 0)
        if cond[0] == 'cast':
            return self.assume(cond[2], value)
        if cond[0] == 'bin':
            op, a, b = cond[1], cond[2], cond[3]
            if not truth:
                neg = {'Lt': 'Ge', 'Le': 'Gt', 'Gt': 'Le', 'Ge': 'Lt', 'Eq': 'Ne', 'Ne': 'Eq'}
                if op not in neg:
                    return
                op = neg[op]
            la, lb = self.lin(a), self.lin(b)
            if la is not None and lb is not None:
                if op == 'Lt':
                    self.add(lb - la - Lin.const(1))
                elif op == 'Le':
                    self.add(lb - la)
                elif op == 'Gt':
                    self.add(la - lb - Lin.const(1))
                elif op == 'Ge':
                    self.add(la - lb)
                elif op == 'Eq':
                    self.add(la - lb)
                    self.add(lb - la)
                elif op == 'Ne':
                    # x != c for an unsigned x: only the c == 0 case is linear (x >= 1)
                    if lb.is_const() and lb.k == 0 and entails(self.K, la):
                        self.add(la - Lin.const(1))
                    if la.is_const() and la.k == 0 and entails(self.K, lb):
                        self.add(lb - Lin.const(1))
            # width consequences of comparing bit-vectors
            if op in ('Le', 'Lt', 'Eq'):
                self.width_le(a, b, strict=(op == 'Lt'))
            if op in ('Ge', 'Gt', 'Eq'):
                self.width_le(b, a, strict=(op == 'Gt'))

    def width_le(self, a, b, strict):
        """a <= b (or a < b) on unsigned values => width(a) <= width(b); a < 1<<k => width(a) <= k"""
        wa = self.width(a)
        if wa[0] != 'lin':
            return
        if strict and b[0] == 'bin' and b[1] == 'Shl' and b[2] == ('const', 1):
            lk = self.lin(b[3])
            if lk is not None:
                self.add(lk - wa[1])
                return
        wb = self.width(b)
        for u in w_upper_lins(wb):
            self.add(u - wa[1])


# ------------------------------------------------------------------ the engine

class Engine:
    def __init__(self, facts, rep, module=MODULE, adt=ADT):
        self.facts = facts
        self.rep = rep
        self.module = module
        self.adt = adt
        self.bodies = [b for b in facts.bodies.values() if b.defp.startswith(module) or
                       (b.impl and b.impl.get('self_adt') == adt) or
                       (b.kind == 'Closure' and (b.d.get('root') or '').startswith(module)) or
                       (b.kind == 'Closure' and self._root_impl_adt(b) == adt)]
        self.call_ret_ty = {}
        self.upvar_ty = {}
        for b in self.bodies:
            for c in b.calls():
                self.call_ret_ty[(b.defp, str(c.bb))] = c.term.get('dest_ty')
        self._wsum = {}
        self._paths = {}

    def _root_impl_adt(self, b):
        r = self.facts.bodies.get(b.d.get('root') or '')
        return r.impl.get('self_adt') if r is not None and r.impl else None

    def paths(self, b):
        if b.defp not in self._paths:
            self._paths[b.defp] = SymEx(b, havoc_loops=True, max_paths=3000).run()
        return self._paths[b.defp]

    def replay(self, b, path, on_assert=None, on_call=None):
        """re-walk a path's events building K; returns the context at the end"""
        cx = Cx(self, b)
        for e in path.events:
            if e.kind == 'branch':
                if e.name and e.name.startswith('assert:'):
                    if on_assert:
                        on_assert(cx, e)
                    cx.assume(e.term, 'else' if e.value == 1 else 0)
                else:
                    cx.assume(e.term, e.value)
            elif e.kind == 'call':
                cx.site_defp[e.site] = e.defp or b.defp
                if on_call:
                    on_call(cx, e)
        return cx

    def width_summary(self, name):
        """templates t such that width(ret) <= t on every return path of an in-module u64 fn"""
        if name in self._wsum:
            return self._wsum[name]
        self._wsum[name] = None
        b = self.facts.bodies.get(name)
        if b is None or b not in self.bodies or b.ret_ty not in ('u64', 'usize'):
            return None
        try:
            paths = [p for p in self.paths(b) if p.end == 'return']
        except TooManyPaths:
            return None
        if not paths:
            return None
        cands = [('const', 0), ('const', 1), ('const', MAXW)] + \
                [('arg', i) for i in range(1, b.arg_count + 1) if b.local_ty(i) in UNSIGNED]
        ok = []
        for tpl in cands:
            good = True
            for p in paths:
                cx = self.replay(b, p)
                bound = Lin.const(tpl[1]) if tpl[0] == 'const' else cx.lin(('arg', tpl[1]))
                if bound is None or not prove_w_le(cx.K, cx.width(p.ret), bound):
                    good = False
                    break
            if good:
                ok.append(tpl)
        self._wsum[name] = ok or None
        return self._wsum[name]

    # ---- obligations
    def counter_idiom(self, b, local):
        """local is initialised to a constant and only ever incremented by the constant 1"""
        tmp_ok = set()
        for bb, j, s in b.assigns():
            rv = s['rv']
            if rv['k'] == 'bin' and rv['op'] == 'AddWithOverflow' and not s['lhs']['p']:
                pa = op_place(rv['a'])
                cb = op_const(rv['b'])
                if pa is not None and not pa['p'] and self._copy_of(b, pa['l'], local) and cb and cb.get('val') == 1:
                    tmp_ok.add(s['lhs']['l'])
        for bb, j, s in b.assigns():
            if s['lhs']['l'] == local and not s['lhs']['p']:
                rv = s['rv']
                if rv['k'] == 'use':
                    c = op_const(rv['op'])
                    if c is not None and 'val' in c:
                        continue
                    p = op_place(rv['op'])
                    if p is not None and p['l'] in tmp_ok and [e.get('n') for e in p['p'] if isinstance(e, dict)] == ['0']:
                        continue
                return False
        for c in b.calls():
            if c.dest and c.dest['l'] == local:
                return False
        return True

    def _copy_of(self, b, l, target):
        if l == target:
            return True
        defs = [s for bb, j, s in b.assigns() if s['lhs']['l'] == l and not s['lhs']['p']]
        if len(defs) == 1 and defs[0]['rv']['k'] == 'use':
            p = op_place(defs[0]['rv']['op'])
            return p is not None and not p['p'] and p['l'] == target
        return False

    def check_body(self, b):
        rep = self.rep
        rep.saw(b)
        try:
            paths = self.paths(b)
        except TooManyPaths:
            rep.indet('E4: path explosion in %s' % b.defp)
            return
        done = set()

        def on_assert(cx, e):
            msg = e.name[len('assert:'):]
            if not msg.startswith('Overflow'):
                return
            eb = self.facts.bodies.get(e.defp or '') or b     # the body the check sits in (a helper executed in place)
            key = (eb.defp, e.bb, msg)
            term = eb.blocks[e.bb]['term']
            line = term.get('cline') or term['line']
            ok, why = self.prove_overflow_check(b, cx, e, msg)
            inst = '%s|%s at `%s`' % (eb.defp, msg, eb.src_line(line))
            if ok:
                if key not in done:
                    done.add(key)
                    rep.ok('E4.O1-no-overflow', inst, why)
            else:
                k2 = ('bad',) + key
                if k2 in done:
                    return
                done.add(k2)
                rep.violation('E4.O1-no-overflow', inst,
                              '%s: cannot prove the compiler-inserted check `%s` (%s); in a build without '
                              'overflow checks this wraps silently instead of being rejected' % (b.defp, msg, why),
                              where='%s:%d' % (b.file, line),
                              detail=['path conditions: ' + '; '.join(repr(k) + ' >= 0' for k in cx.K[-8:])])

        def on_call(cx, e):
            if re.search(r'::<impl u(8|16|32|64|128|size)>::pow$', e.name) or re.search(r'num::<impl u\w+>::pow$', e.fn['def'] if e.fn else ''):
                base, ex = e.args
                line = e.line
                inst = '%s|pow at `%s`' % (b.defp, b.src_line(line))
                bits = UNSIGNED.get((self.facts.bodies.get(e.defp or '') or b).blocks[e.bb]['term'].get('dest_ty'), 64)
                le = cx.lin(ex)
                ok = base == ('const', 2) and le is not None and entails(cx.K, Lin.const(bits - 1) - le)
                if ok:
                    if ('pow', e.bb) not in done:
                        done.add(('pow', e.bb))
                        rep.ok('E4.O1-no-overflow', inst, '2.pow(e) with e <= %d' % (bits - 1))
                elif ('badpow', e.bb) not in done:
                    done.add(('badpow', e.bb))
                    rep.violation('E4.O1-no-overflow', inst,
                                  '%s: cannot prove that %s.pow(%s) stays below 2^%d' % (b.defp, show(base), show(ex), bits),
                                  where='%s:%d' % (b.file, line))

        for p in paths:
            cx = self.replay(b, p, on_assert, on_call)
            if p.end != 'return':
                continue
            self.check_invariants_at_return(b, p, cx, done)
        # O3: aggregate literals of the ADT prove the invariant where they are built
        self.check_literals(b, paths, done)

    def prove_overflow_check(self, b, cx, e, msg):
        term = (self.facts.bodies.get(e.defp or '') or b).blocks[e.bb]['term']
        cond = e.term
        op = msg[len('Overflow('):-1]
        if op in ('Shl', 'Shr'):
            # cond is Lt(amount, bits)
            c = cond
            while c[0] == 'cast':
                c = c[2]
            if c[0] == 'const':
                return (c[1] == 1), 'constant shift amount'
            if c[0] == 'bin' and c[1] == 'Lt':
                la, lb = cx.lin(c[2]), cx.lin(c[3])
                if la is not None and lb is not None and entails(cx.K, lb - la - Lin.const(1)):
                    return True, 'shift amount %s < %s' % (show(c[2]), show(c[3]))
                return False, 'shift amount %s not provably < %s' % (show(c[2]), show(c[3]))
            return False, 'unrecognised shift check'
        # arithmetic: operands are in the assert message
        sx = SymExOperands(cx, b, e)
        a, bb_ = sx.ops(term)
        if a is None:
            return False, 'operands not recoverable'
        dest_bits = 64
        if op == 'Add':
            la, lb = cx.lin(a), cx.lin(bb_)
            if la is not None and lb is not None and entails(cx.K, Lin.const(UMAX) - la - lb):
                return True, '%s + %s <= 2^64-1' % (show(a), show(bb_))
            # accepted idiom: a counter that starts at a constant and is only incremented by 1
            if bb_ == ('const', 1) and a[0] == 'loopvar' and isinstance(a[2], int) and self.counter_idiom(b, a[2]):
                return True, 'loop counter incremented by 1 (overflow needs 2^64 iterations)'
            return False, '%s + %s not provably <= 2^64-1' % (show(a), show(bb_))
        if op == 'Sub':
            la, lb = cx.lin(a), cx.lin(bb_)
            if la is not None and lb is not None and not (a[0] == 'bin') and entails(cx.K, la - lb):
                return True, '%s >= %s' % (show(a), show(bb_))
            if bb_[0] == 'const' and isinstance(bb_[1], int) and cx.lbv(a) >= bb_[1]:
                return True, '%s >= %s (1 << n is at least 1)' % (show(a), bb_[1])
            if la is not None and lb is not None and entails(cx.K, la - lb):
                return True, '%s >= %s' % (show(a), show(bb_))
            return False, '%s - %s may go below zero' % (show(a), show(bb_))
        if op == 'Mul':
            la, lb = cx.lin(a), cx.lin(bb_)
            if la is not None and lb is not None and (la.is_const() or lb.is_const()):
                prod = lb.scale(la.k) if la.is_const() else la.scale(lb.k)
                if entails(cx.K, Lin.const(UMAX) - prod):
                    return True, 'bounded product'
            return False, 'product not provably in range'
        return False, 'unsupported check ' + msg

    def invariant_terms(self, b, p):
        """(label, val term, len term) for every BitSeq that is observable after this return"""
        out = []
        st = p.state
        for i in range(1, b.arg_count + 1):
            ty = b.local_ty(i)
            if ty.startswith('&mut ') and b.locals[i].get('adt') == self.adt:
                root = ('ptr', ('arg', i))
                out.append(('*%s' % (b.local_name(i) or 'arg%d' % i), st.read(root, ('val',)), st.read(root, ('len',))))
        if b.ret_ty.split('<')[0].endswith(self.adt.split('::', 1)[1]) and p.ret is not None:
            r = p.ret
            if r[0] == 'adt' and r[1] == self.adt:
                out.append(('return value', r[4][r[3].index('val')], r[4][r[3].index('len')]))
            else:
                out.append(('return value', ('field', r, 'val'), ('field', r, 'len')))
        return out

    def prove_invariant(self, cx, val, ln):
        # same object, untouched: holds by assumption
        if val[0] == 'field' and ln[0] == 'field' and val[1] == ln[1] and val[2] == 'val' and ln[2] == 'len':
            return True, 'unchanged (invariant of the received value)'
        ll = cx.lin(ln)
        if ll is None:
            return False, 'len %s is not linear' % show(ln)
        if not entails(cx.K, Lin.const(MAXW) - ll):
            return False, 'len = %s not provably <= 64' % show(ln)
        wt = cx.width(val)
        if not prove_w_le(cx.K, wt, ll):
            return False, 'width(%s) = %s not provably <= len = %s' % (show(val), w_show(wt), show(ln))
        return True, 'len <= 64 and width(val) = %s <= len' % w_show(wt)

    def check_invariants_at_return(self, b, p, cx, done):
        rep = self.rep
        for label, val, ln in self.invariant_terms(b, p):
            ok, why = self.prove_invariant(cx, val, ln)
            shape = re.sub(r'#(?:i\d+:)?\d+\.\d+', '', '%s: val=%s len=%s' % (label, show(val), show(ln)))
            inst = '%s|O2 %s' % (b.defp, shape)
            if ok:
                if inst not in done:
                    done.add(inst)
                    rep.ok('E4.O2-invariant-at-return', inst, why)
            else:
                if ('bad', inst) in done:
                    continue
                done.add(('bad', inst))
                last = [e for e in p.events if e.line]
                rep.violation('E4.O2-invariant-at-return', inst,
                              '%s can return with %s violating len <= 64 and width(val) <= len: %s' % (b.defp, label, why),
                              where='%s:%d' % (b.file, last[-1].line if last else b.line),
                              detail=['path blocks: %s' % p.blocks])

    def check_literals(self, b, paths, done):
        rep = self.rep
        lits = [(bb, j, s) for bb, j, s in b.assigns() if s['rv']['k'] == 'agg' and s['rv'].get('adt') == self.adt]
        for bb, j, s in lits:
            proved = None
            why = ''
            for p in paths:
                if bb not in p.blocks:
                    continue
                # the literal's operands as terms on this path: re-run is expensive; the literal is
                # either the return value or stored; find it among the path's memory terms
                lit = None
                for t in list(p.mem.values()) + ([p.ret] if p.ret else []):
                    for sub in subterms(t):
                        if sub[0] == 'adt' and sub[1] == self.adt:
                            lit = sub
                if lit is None:
                    continue
                cx = self.replay(b, p)
                ok, why = self.prove_invariant(cx, lit[4][lit[3].index('val')], lit[4][lit[3].index('len')])
                proved = ok if proved is None else (proved and ok)
                if not ok:
                    break
            line = s.get('cline') or s['line']
            inst = '%s|O3 literal' % b.defp
            if proved:
                rep.ok('E4.O3-literal', inst, why)
            elif proved is None:
                rep.violation('E4.O3-literal', inst, '%s builds a BitSeq literal that could not be related to a path' % b.defp,
                              where='%s:%d' % (b.file, line))
            else:
                rep.violation('E4.O3-literal', inst,
                              '%s builds `BitSeq { .. }` without establishing the invariant: %s' % (b.defp, why),
                              where='%s:%d' % (b.file, line))
        return len(lits)


class SymExOperands:
    """recover the operand terms of an Overflow assert from the checked-op tuple it tests"""

    def __init__(self, cx, b, e):
        self.cx, self.b, self.e = cx, b, e

    def ops(self, term):
        c = self.e.term
        while c[0] in ('un', 'cast'):
            c = c[2]
        if c[0] == 'field' and c[1][0] == 'bin' and c[2] == '1':
            return c[1][2], c[1][3]
        return None, None


# ------------------------------------------------------------------ O4 ordering

def check_order(eng, rep):
    """O4: Ord::cmp is the lexicographic order on (len, weight, val) - decided by *value*: every comparison of a key of
    self with the same key of other is replaced by a symbolic outcome, the decision tree of cmp (then_with closures applied,
    early returns and matches on the outcome followed) is folded over all 27 outcome triples and compared with
    `by len, then by weight, then by value`; (len, val) are all the fields the derived Eq looks at, so the order is
    consistent with ==. partial_cmp must be Some(self.cmp(other))."""
    from dtree import DTree, Stuck
    from symex import apply_closure, strip as _strip
    facts = eng.facts
    cmpb = [b for b in eng.bodies if b.name == 'cmp' and b.impl and (b.impl.get('trait') or '').endswith('cmp::Ord')
            and b.impl.get('self_adt') == eng.adt]
    if len(cmpb) != 1:
        rep.indet('E4.O4: expected one Ord::cmp for BitSeq, found %d' % len(cmpb))
        return
    b = cmpb[0]
    rep.saw(b)
    dt = DTree(facts)
    LESS, EQ, GT = 255, 0, 1
    used = set()

    def key_side(t):
        """('self'|'other', 'len'|'weight'|'val') for an operand of Ord::cmp, seen from cmp itself or from one of its closures"""
        t = _strip(t)
        if t[0] == 'call' and len(t[2]) == 1:
            k = key_of(eng, b, t)
            if k is None:
                # inside a closure the receiver is a capture
                k = key_of(eng, type('C', (), {'kind': 'Closure'})(), t)
            return k
        if t[0] == 'field' and t[2] in ('len', 'val'):
            base = _strip(t[1])
            if base == ('arg', 1):
                return ('self', t[2])
            if base == ('arg', 2):
                return ('other', t[2])
            if base[0] == 'field' and str(base[2]).lstrip('^').replace('_ref__', '') in ('self', 'other'):
                return (str(base[2]).lstrip('^').replace('_ref__', ''), t[2])
        return None

    def make_atom(env):
        def atom(t, ev):
            if t[0] == 'call' and t[1].endswith('cmp::Ord::cmp') and len(t[2]) == 2:
                ka, kb = key_side(t[2][0]), key_side(t[2][1])
                if ka is None or kb is None or ka[1] != kb[1] or {ka[0], kb[0]} != {'self', 'other'}:
                    raise Stuck('comparison of %s with %s' % (ka, kb))
                used.add(ka[1])
                o = env[ka[1]]
                if ka[0] == 'other':       # other.k.cmp(self.k): reversed
                    o = {LESS: GT, GT: LESS, EQ: EQ}[o]
                return (o,)
            if t[0] == 'call' and t[1].endswith('Ordering::then_with') and len(t[2]) == 2:
                o = ev(t[2][0])
                if o != EQ:
                    return (o,)
                clo = _strip(t[2][1])
                if clo[0] != 'closure' or clo[1] not in facts.bodies:
                    raise Stuck('then_with with a non-local closure')
                v, _ = dt.decide(clo[1], {1: clo}, atom)
                return (v,)
            if t[0] == 'call' and t[1].endswith('Ordering::then') and len(t[2]) == 2:
                o = ev(t[2][0])
                return (o if o != EQ else ev(t[2][1]),)
            if t[0] == 'adt' and t[1].endswith('cmp::Ordering'):
                return ({'Less': LESS, 'Equal': EQ, 'Greater': GT}[t[2]],)
            if t[0] == 'discr':
                v = ev(t[1])
                if v in (LESS, EQ, GT):
                    return (v,)
            if t[0] == 'field' and isinstance(t[2], str) and t[2].startswith('^') and t[1][0] == 'closure':
                from symex import project
                r = project(t[1], t[2])
                if r[0] != 'field':
                    return (ev(r),)
            if t[0] == 'closure':
                return (t,)
            return None
        return atom
    bad = None
    try:
        for ol in (LESS, EQ, GT):
            for ow in (LESS, EQ, GT):
                for ov in (LESS, EQ, GT):
                    env = {'len': ol, 'weight': ow, 'val': ov}
                    got, _ = dt.decide(b.defp, {1: ('self',), 2: ('other',)}, make_atom(env))
                    if isinstance(got, dict) and '<variant>' in got:
                        got = {'Less': LESS, 'Equal': EQ, 'Greater': GT}.get(got['<variant>'], got)
                    want = ol if ol != EQ else (ow if ow != EQ else ov)
                    if got != want and bad is None:
                        nm = {LESS: 'Less', EQ: 'Equal', GT: 'Greater'}
                        bad = 'for (len, weight, val) comparing as (%s, %s, %s) cmp answers %s, the lexicographic order answers %s' % (nm[ol], nm[ow], nm[ov], nm.get(got, got), nm[want])
    except (Stuck, KeyError, TypeError) as e:
        rep.indet('E4.O4: Ord::cmp of BitSeq outside the recognised fragment: %s' % e)
        return
    inst = '%s|chain' % b.defp
    if bad:
        rep.violation('E4.O4-order-chain', inst, 'BitSeq::cmp is not the order by length, then weight, then value: %s; the keys must include every Eq field (len, val) for consistency with ==' % bad, where=b.where())
        return
    if used != {'len', 'weight', 'val'}:
        rep.violation('E4.O4-order-chain', inst, 'BitSeq::cmp consults the keys %s only; (len, val) are the derived-Eq fields and must both decide the order' % sorted(used), where=b.where())
        return
    rep.ok('E4.O4-order-chain', inst, 'lexicographic in (len, weight, val) on all 27 outcome triples')
    # partial_cmp delegates
    pc = [x for x in eng.bodies if x.name == 'partial_cmp' and x.impl and x.impl.get('self_adt') == eng.adt]
    for x in pc:
        rep.saw(x)
        ok = False
        for p in eng.paths(x):
            r = p.ret
            if r and r[0] == 'adt' and r[2] == 'Some' and r[4][0][0] == 'call' and r[4][0][1] == b.defp and r[4][0][2] == (('arg', 1), ('arg', 2)):
                ok = True
        if ok:
            rep.ok('E4.O4-order-chain', '%s|delegates' % x.defp, 'Some(self.cmp(other))')
        else:
            rs_ = [p.ret for p in eng.paths(x) if p.end == 'return' and p.ret]
            if rs_ and all(r_[0] == 'adt' and r_[1].endswith('Option') for r_ in rs_) and not any(isinstance(y, tuple) and y and y[0] == 'call' and y[1] == b.defp for r_ in rs_ for y in subterms(r_)):
                rep.violation('E4.O4-order-chain', '%s|delegates' % x.defp, 'partial_cmp does not go through cmp: the partial order can disagree with the total one', where=x.where())
            else:
                rep.indet('E4.O4: partial_cmp of BitSeq outside the recognised fragment')


def key_of(eng, body, t):
    """classify a comparison key: ('self'|'other', 'len'|'weight'|'val')"""
    while t[0] in ('ref', 'deref'):
        t = t[1]
    if t[0] != 'call' or len(t[2]) != 1:
        return None
    acc = t[1].split('::')[-1]
    recv = t[2][0]
    while recv[0] in ('ref', 'deref'):
        recv = recv[1]
    who = None
    if recv == ('arg', 1) and body.kind != 'Closure':
        who = 'self'
    elif recv == ('arg', 2) and body.kind != 'Closure':
        who = 'other'
    elif recv[0] == 'field' and recv[2].lstrip('^').replace('_ref__', '') in ('self', 'other'):
        who = recv[2].lstrip('^').replace('_ref__', '')
    key = {'len': 'len', 'weight': 'weight', 'as_u64': 'val'}.get(acc)
    # the accessor must really return that field
    ab = eng.facts.bodies.get(t[1])
    if key in ('len', 'val') and ab is not None:
        rets = [p.ret for p in eng.paths(ab) if p.end == 'return']
        if not rets or any(r != ('field', ('deref', ('arg', 1)), key) for r in rets):
            return None
    if who is None or key is None:
        return None
    return (who, key)


def run(facts, rep, module=MODULE, adt=ADT, floor=50, order=True):
    eng = Engine(facts, rep, module, adt)
    if not rep.floor('E4 bodies in the bit-sequence module', len(eng.bodies), floor):
        return eng
    ADT_ = adt
    adt = facts.adts.get(ADT_)
    if adt is None:
        rep.indet('E4: ADT %s not found' % ADT_)
        return eng
    for f in adt['variants'][0]['fields']:
        inst = 'BitSeq.%s visibility' % f['name']
        if f['vis'] == 'pub' or not f['vis'].endswith(module.rstrip(':').split('::', 1)[1]):
            rep.violation('E4.O3-private-fields', inst, 'field BitSeq.%s is visible outside misc::bitseq (%s): the packed '
                          'representation can be written without re-establishing len <= 64 and width(val) <= len' % (f['name'], f['vis']),
                          where='%s:%d' % (adt['file'], adt['line']))
        else:
            rep.ok('E4.O3-private-fields', inst, f['vis'])
    nlit = 0
    from symex import unmentioned_private_helper
    rcg = facts.rev_callgraph()
    mine = {x.defp for x in eng.bodies}
    for b in sorted(eng.bodies, key=lambda x: x.defp):
        callers = rcg.get(b.defp, ())
        if b.kind != 'Closure' and unmentioned_private_helper(b, None) and callers and all(c in mine for c in callers):
            # a private helper: its checks are discharged in the context of each caller, where its arguments are bounded
            rep.ok('E4.O1-no-overflow', '%s|private helper' % b.defp, 'executed in place in %s' % sorted(c.split('::')[-1] for c in callers)[:3])
            continue
        eng.check_body(b)
    if order:
        check_order(eng, rep)
    rep.inventory['E4 width summaries of in-module u64 functions'] = {k: v for k, v in eng._wsum.items() if v}
    return eng


def check_display(facts, rep):
    """O5 (C17, "printing matches a plain list of booleans for every length from 0"): Display writes one character per
    element - its only writes to the formatter happen inside a loop over self.iter() (one `fmt` of the element per
    iteration), and Debug delegates to Display. Handing the packed word `self.val` to a numeric formatter prints at least
    one digit, so the empty sequence would print as "0" and be indistinguishable from zeros(1)."""
    import re
    from symex import SymEx, show
    D = 'yui::<misc::bitseq::BitSeq as std::fmt::Display>::fmt'
    G = 'yui::<misc::bitseq::BitSeq as std::fmt::Debug>::fmt'
    d, g = facts.bodies.get(D), facts.bodies.get(G)
    if not (d and g):
        rep.indet('E4.O5: Display / Debug for BitSeq not found')
        return
    rep.saw(d)
    rep.saw(g)

    def dk(t):
        return re.sub(r'&mut _\d+', 'IT', re.sub(r'#(?:i\d+:)?\d+\.\d+', '', show(t, -1000))).replace('&', '').replace('*', '')
    whole = []
    per_elem = 0
    outside = []
    for p in SymEx(d, havoc_loops=True, max_paths=5000).run():
        in_loop = any(dk(e.term) == 'discr(next(IT))' and e.value == 1 for e in p.branches())
        for e in p.calls():
            nm = e.name.split('::')[-1]
            args = [dk(a) for a in e.args]
            if any(re.search(r'arg1\.val\b', a) for a in args) and nm not in ('iter', 'len'):
                whole.append('%s(%s)' % (nm, ', '.join(a[:40] for a in args)))
            if nm in ('try_for_each', 'for_each') and len(e.args) == 2 and (dk(e.pre[0]) if e.pre else args[0]) in ('iter(arg1)', 'into_iter(iter(arg1))'):
                # self.iter().try_for_each(|b| fmt(b, f)): the closure body is the loop body
                from symex import apply_closure
                qs = apply_closure(e.args[1], [('item',)]) or []
                good = bool(qs)
                for q in qs:
                    ws = [c for c in q.calls() if c.name.split('::')[-1] in ('fmt', 'write_str', 'write_char', 'write_fmt')]
                    if len(ws) != 1 or dk(ws[0].args[0]).replace("('item',)", 'ITEM') != 'ITEM' or 'arg2' not in dk(ws[0].args[1]):
                        good = False
                if good:
                    per_elem += 1
                else:
                    outside.append('%s(%s)' % (nm, ', '.join(a[:50] for a in args)))
            if nm in ('fmt', 'write_str', 'write_char', 'write_fmt') and any('arg2' in a for a in args):
                if args and args[0] == 'next(IT).Some.0' and in_loop:
                    per_elem += 1
                else:
                    outside.append('%s(%s)' % (nm, ', '.join(a[:50] for a in args)))
    inst = 'BitSeq Display|one character per element, nothing for the empty sequence'
    if whole:
        rep.violation('E4.O5-display-per-element', inst, 'Display formats the packed value (%s): a number is printed with at least one digit, so the empty sequence prints as "0" instead of ""' % whole[0], where=d.where())
    elif per_elem and not outside:
        rep.ok('E4.O5-display-per-element', inst, 'for b in self.iter() { fmt(b) }')
    else:
        rep.indet('E4.O5: Display of BitSeq outside the recognised fragment: writes %s' % (outside[:2] or 'none'))
    gr = {dk(p.ret) for p in SymEx(g).run() if p.end == 'return'}
    if gr == {'fmt(arg1, mut arg2)'} or gr == {'fmt(arg1, arg2)'}:
        rep.ok('E4.O5-display-per-element', 'BitSeq Debug|delegates to Display', 'fmt(self, f)')
    else:
        rep.indet('E4.O5: Debug of BitSeq is %s' % sorted(gr))


BITS = {'u8': 8, 'i8': 8, 'u16': 16, 'i16': 16, 'u32': 32, 'i32': 32, 'u64': 64, 'i64': 64, 'usize': 64, 'isize': 64, 'u128': 128, 'i128': 128}


def check_no_narrowing(facts, rep, module=MODULE):
    """O6 (C17): the packed word is never truncated. Every integer cast in the module whose source is a 64-bit value
    (`val` and everything computed from it is u64) goes to a type of at least 64 bits; a cast `val as u32` drops the bits
    of positions 32..63, which the invariant width(val) <= len <= 64 allows to be set (weight, and with it the homological
    degree of every Khovanov generator, would be wrong from 33 crossings on). usize is taken as 64 bits (the only
    supported targets; a 32-bit target would have to be excluded in Cargo metadata)."""
    n = 0
    bad = []
    for k, b in sorted(facts.bodies.items()):
        if not (k.startswith(module) or ('<' + module.split('::', 1)[1] in k and k.startswith(module.split('::')[0] + '::<'))):
            continue
        for i, blk in enumerate(b.blocks):
            for s in blk['stmts']:
                rv = s.get('rv') or {}
                if rv.get('k') != 'cast' or rv.get('kind') != 'IntToInt':
                    continue
                src, dst = rv.get('from_ty'), rv.get('ty')
                if src not in BITS or dst not in BITS:
                    continue
                n += 1
                if BITS[src] >= 64 and BITS[dst] < 64 and src in ('u64', 'usize', 'i64', 'isize', 'u128', 'i128'):
                    bad.append((k, src, dst, s.get('line')))
    inst = 'bitseq|no narrowing cast of a 64-bit value'
    if bad:
        k, src, dst, line = bad[0]
        rep.violation('E4.O6-no-narrowing-cast', '%s|%s as %s' % (k, src, dst),
                      '%s casts a %s to %s: the bits of positions %d..63 of the packed word are dropped although len may be up to 64' % (k, src, dst, BITS[dst]),
                      where='yui/src/misc/bitseq.rs:%s' % line)
    else:
        rep.ok('E4.O6-no-narrowing-cast', inst, '%d integer casts, none narrows a 64-bit value' % n)
    rep.floor('E4.O6 integer casts in the bit-sequence module', n, 3)


def check_from_iter_rejects(facts, rep):
    """O7 (C17, "operations that would exceed the maximum are rejected rather than corrupting the value" - for
    construction, and through it for parsing and From<[T; N]>): BitSeq::from_iter walks the *whole* input and rejects
    explicitly: the iterator its loop is driven by is the input itself, not an adapter that can end early (zip with a
    bounded range, take, take_while, ..), and every iteration passes an explicit `len < MAX_LEN` test (whose failing edge
    diverges) before it stores a bit. A bounded zip keeps all arithmetic in range - and silently drops the 65th element."""
    import re
    from symex import SymEx, show, strip
    fn = [b for k, b in facts.bodies.items() if k.endswith('BitSeq as std::iter::FromIterator<T>>::from_iter')]
    if len(fn) != 1:
        rep.indet('E4.O7: FromIterator for BitSeq not found')
        return
    b = fn[0]
    rep.saw(b)

    def dk(t):
        return re.sub(r'&mut _\d+', 'IT', re.sub(r'#(?:i\d+:)?\d+\.\d+', '', show(t, -1000)))
    paths = SymEx(b, havoc_loops=True, max_paths=5000).run()
    back = [p for p in paths if p.end == 'backedge']
    srcs = set()
    for p in paths:
        for (fid, bb, l), v in p.state.loop_entry.items():
            if fid == 0 and strip(v)[0] == 'call' and strip(v)[1].endswith('into_iter'):
                srcs.add(dk(v))
    inst = 'BitSeq::from_iter|walks the whole input, rejects the 65th element explicitly'
    if not back or len(srcs) != 1:
        rep.indet('E4.O7: from_iter has no single input loop (sources %s)' % sorted(srcs))
        return
    src = next(iter(srcs))
    names = re.findall(r'([a-z_]+)\(', src)
    cut = [n for n in names if n in ('zip', 'take', 'take_while', 'map_while', 'skip', 'skip_while', 'step_by', 'scan', 'chunks')]
    if cut:
        rep.violation('E4.O7-construction-rejects', inst,
                      'BitSeq::from_iter drives its loop by %s: %s ends the iteration when the bound is reached, so an input longer than MAX_LEN is silently truncated to its first 64 elements instead of being rejected (parsing and From<[T; N]> collect through it)' % (src, cut[0]),
                      where=b.where())
        return
    if not re.match(r'(into_iter\()+arg1\)+$', src):
        rep.indet('E4.O7: from_iter iterates over %s' % src)
        return
    unguarded = []
    for p in back:
        explicit = [dk(e.term) for e in p.branches() if not (e.name or '').startswith('assert:') and re.match(r'(Lt|Le)\(loop\w+, (64|63)\)$', dk(e.term)) and e.value != 0]
        if not explicit:
            unguarded.append([dk(e.term)[:40] for e in p.branches()][:3])
    if unguarded:
        rep.violation('E4.O7-construction-rejects', inst, 'an iteration of BitSeq::from_iter stores a bit without having passed an explicit `len < MAX_LEN` test (%s)' % unguarded[0], where=b.where())
    else:
        rep.ok('E4.O7-construction-rejects', inst, 'for b in iter { assert!(len < 64); .. } over the input itself')


def check_from_str_language(facts, rep):
    """O8 (C17, "parsing and printing .. for every length from 0"): BitSeq::from_str accepts exactly the words over
    {'0', '1'} - character by character: '0' -> Bit0, '1' -> Bit1, anything else an error - so that it is the inverse of
    Display for every length including 0. Delegating to an integer parser (`from_str_radix`, `parse::<u64>`) accepts
    another language: the empty word is rejected and a leading sign is swallowed."""
    import re
    from symex import SymEx, show, strip, apply_closure
    fn = [b for k, b in facts.bodies.items() if k.endswith('BitSeq as std::str::FromStr>::from_str')]
    if len(fn) != 1:
        rep.indet('E4.O8: FromStr for BitSeq not found')
        return
    b = fn[0]
    rep.saw(b)
    inst = 'BitSeq::from_str|exactly the words over {0, 1}, character by character'
    names = set()
    table = None
    for p in SymEx(b, havoc_loops=True, max_paths=2000).run():
        for e in p.calls():
            last = e.name.split('::')[-1]
            names.add(last)
            if last == 'map' and len(e.args) == 2 and strip(e.args[1])[0] == 'closure' and strip(e.args[0])[0] == 'call' and strip(e.args[0])[1].split('::')[-1] == 'chars':
                rows = set()
                for q in apply_closure(e.args[1], [('item',)]) or []:
                    if q.end != 'return' or q.ret is None:
                        continue
                    conds = [(c.value, tuple(c.args or ())) for c in q.branches() if c.term == ('item',)]
                    r = re.sub(r'#(?:i\d+:)?\d+\.\d+', '', show(q.ret, -1000))
                    rows.add((conds[0] if len(conds) == 1 else None, r[:24]))
                table = rows
    if 'from_str_radix' in names or ('parse' in names and table is None):
        rep.violation('E4.O8-parse-language', inst,
                      'BitSeq::from_str hands the string to an integer parser (%s): "" is rejected although the empty sequence prints as "", and a leading `+` is accepted - parsing is no longer the inverse of printing at length 0 and malformed input is not rejected' % ('from_str_radix' if 'from_str_radix' in names else 'parse'),
                      where=b.where())
    elif table is not None and {(c[0] if c else None, r) for c, r in table} == {(48, 'Result::Ok{0: Bit::Bit0{'), (49, 'Result::Ok{0: Bit::Bit1{'), ('else', 'Result::Err{0: into("Inv')} | set() or \
            (table is not None and sorted((c[0] if c else None) for c, r in table if r.startswith('Result::Ok{0: Bit::Bit0')) == [48] and sorted((c[0] if c else None) for c, r in table if r.startswith('Result::Ok{0: Bit::Bit1')) == [49] and all(r.startswith('Result::Err') for c, r in table if c and c[0] == 'else') and len(table) == 3):
        rep.ok('E4.O8-parse-language', inst, "'0' -> Bit0, '1' -> Bit1, else Err; collected over chars()")
    else:
        rep.indet('E4.O8: BitSeq::from_str outside the recognised fragment: calls %s, table %s' % (sorted(n for n in names if n in ('chars', 'map', 'collect', 'bytes', 'parse', 'from_str_radix', 'try_fold', 'push')), sorted(table, key=str) if table else None))
