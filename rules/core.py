"""Fact base + CFG / call-graph utilities over the MIR facts emitted by /verif/driver.

Nothing in here runs yui code: it only reads the json the rustc driver wrote.
"""
import json, os, re, sys, collections

# ------------------------------------------------------------------ operands / places

def op_place(op):
    """place dict of a copy/move operand, else None"""
    if op is None:
        return None
    return op.get('copy') or op.get('move')

def op_local(op):
    """local index when the operand is a bare local (no projection), else None"""
    p = op_place(op)
    if p is not None and not p['p']:
        return p['l']
    return None

def op_const(op):
    return op.get('const') if op else None

def const_val(op):
    c = op_const(op)
    if c is not None and 'val' in c:
        return c['val']
    return None

def place_fields(p):
    """list of field names along a place's projection"""
    return [e['n'] for e in p['p'] if isinstance(e, dict) and 'n' in e]

def place_str(body, p):
    s = '_%d' % p['l']
    nm = body.local_name(p['l'])
    if nm:
        s = nm
    for e in p['p']:
        if e == 'deref':
            s = '(*%s)' % s
        elif isinstance(e, dict) and 'n' in e:
            s += '.' + e['n']
        elif isinstance(e, dict) and 'index' in e:
            s += '[_%d]' % e['index']
        elif isinstance(e, dict) and 'downcast' in e:
            s += ' as ' + e['downcast']
        else:
            s += '.<%s>' % (e if isinstance(e, str) else list(e)[0])
    return s

def operands_of_rvalue(rv):
    k = rv['k']
    if k in ('use', 'repeat', 'cast'):
        return [rv['op']]
    if k == 'bin':
        return [rv['a'], rv['b']]
    if k == 'un':
        return [rv['a']]
    if k == 'agg':
        return list(rv['ops'])
    return []

def places_read_by_rvalue(rv):
    out = []
    for op in operands_of_rvalue(rv):
        p = op_place(op)
        if p is not None:
            out.append(p)
    if rv['k'] in ('ref', 'rawptr', 'discr'):
        out.append(rv['place'])
    return out


ID2DEF = {}      # crate-independent id -> def path key of the workspace body (filled by Facts)

WORKSPACE_CRATES = {'yui', 'yui_matrix', 'yui_homology', 'yui_link', 'yui_kh', 'ykh', 'yui_verif_fixtures'}


class Call:
    __slots__ = ('body', 'bb', 'term', 'fn', 'args', 'dest', 'target', 'unwind', 'line')

    def __init__(self, body, bb, term):
        self.body = body
        self.bb = bb
        self.term = term
        c = op_const(term['func'])
        self.fn = c.get('fn') if c else None
        self.args = term['args']
        self.dest = term.get('dest')
        self.target = term.get('target')
        self.unwind = term.get('unwind')
        self.line = term.get('cline', term['line']) if term.get('cline') else term['line']

    @property
    def callee(self):
        """best known callee def path: the resolved instance when there is one (as keyed in its own crate)"""
        if self.fn is None:
            return None
        if self.fn.get('res_id') in ID2DEF:
            return ID2DEF[self.fn['res_id']]
        return self.fn.get('res') or ID2DEF.get(self.fn.get('id')) or self.fn['def']

    @property
    def name(self):
        """resolved path when it is a workspace item, else the generic (trait) path"""
        if self.fn is None:
            return None
        if self.fn.get('res_id') in ID2DEF:
            return ID2DEF[self.fn['res_id']]
        if self.fn.get('res') and self.fn.get('res_crate') in WORKSPACE_CRATES:
            return self.fn['res']
        if self.fn.get('id') in ID2DEF and not self.fn.get('trait'):
            return ID2DEF[self.fn['id']]
        return self.fn['def']

    @property
    def generic(self):
        return self.fn['def'] if self.fn else None

    @property
    def resolved(self):
        return bool(self.fn and self.fn.get('res'))

    @property
    def callee_crate(self):
        if self.fn is None:
            return None
        return self.fn.get('res_crate') or self.fn.get('crate')

    def is_(self, *names):
        """callee (generic or resolved path) ends with one of names"""
        if self.fn is None:
            return False
        for n in names:
            for cand in (self.fn['def'], self.fn.get('res') or ''):
                if cand == n or cand.endswith('::' + n):
                    return True
        return False

    def where(self):
        return '%s:%d' % (self.body.file, self.line)


class Body:
    def __init__(self, d, crate):
        self.d = d
        self.crate = crate
        self.defp = d['def']
        self.kind = d['kind']
        self.file = d['file']
        self.line = d['line']
        self.line_hi = d['line_hi']
        self.blocks = d['blocks']
        self.locals = d['locals']
        self.arg_count = d['arg_count']
        self.impl = d.get('impl')
        self.name = d.get('name')
        self.ret_ty = d['ret_ty']
        self.from_expansion = d['from_expansion']
        self._succ = None
        self._pred = None
        self._calls = None
        self._dom = None

    def __repr__(self):
        return 'Body(%s)' % self.defp

    def where(self):
        return '%s:%d' % (self.file, self.line)

    def local_name(self, l):
        return self.locals[l].get('name')

    def local_ty(self, l):
        return self.locals[l]['ty']

    # -- CFG
    def succs(self, bb, unwind=False):
        t = self.blocks[bb]['term']
        k = t['k']
        out = []
        if k == 'goto':
            out = [t['target']]
        elif k == 'switch':
            out = [x[1] for x in t['targets']] + [t['otherwise']]
        elif k in ('call', 'drop', 'assert'):
            if 'target' in t:
                out = [t['target']]
        if unwind and 'unwind' in t:
            out = out + [t['unwind']]
        return out

    def normal_succ(self):
        if self._succ is None:
            self._succ = [self.succs(i) for i in range(len(self.blocks))]
        return self._succ

    def preds(self):
        if self._pred is None:
            pr = [[] for _ in self.blocks]
            for i, ss in enumerate(self.normal_succ()):
                for s_ in ss:
                    pr[s_].append(i)
            self._pred = pr
        return self._pred

    def reachable(self, start=0, unwind=False):
        seen = {start}
        st = [start]
        while st:
            b = st.pop()
            for s_ in self.succs(b, unwind):
                if s_ not in seen:
                    seen.add(s_)
                    st.append(s_)
        return seen

    def return_blocks(self):
        return [i for i, b in enumerate(self.blocks) if b['term']['k'] == 'return' and not b['cleanup']]

    def dominators(self):
        """dom[b] = set of blocks dominating b (normal edges, from bb0)"""
        if self._dom is not None:
            return self._dom
        n = len(self.blocks)
        reach = self.reachable(0)
        full = set(reach)
        dom = {b: set(full) for b in reach}
        dom[0] = {0}
        pr = self.preds()
        changed = True
        order = sorted(reach)
        while changed:
            changed = False
            for b in order:
                if b == 0:
                    continue
                ps = [p for p in pr[b] if p in reach]
                if not ps:
                    continue
                new = set.intersection(*[dom[p] for p in ps]) | {b}
                if new != dom[b]:
                    dom[b] = new
                    changed = True
        self._dom = dom
        return dom

    def calls(self):
        if self._calls is None:
            cs = []
            for i, b in enumerate(self.blocks):
                if b['term']['k'] == 'call':
                    cs.append(Call(self, i, b['term']))
            self._calls = cs
        return self._calls

    def call_at(self, bb):
        t = self.blocks[bb]['term']
        return Call(self, bb, t) if t['k'] == 'call' else None

    def stmts(self):
        for i, b in enumerate(self.blocks):
            for j, s_ in enumerate(b['stmts']):
                yield i, j, s_

    def assigns(self):
        for i, j, s_ in self.stmts():
            if s_['k'] == 'assign':
                yield i, j, s_

    def fn_consts(self):
        """FnDef constants used as values (not as the callee of a Call)"""
        out = []
        for i, j, s_ in self.assigns():
            for op in operands_of_rvalue(s_['rv']):
                c = op_const(op)
                if c and 'fn' in c:
                    out.append(c['fn'])
        for c_ in self.calls():
            for a in c_.args:
                c = op_const(a)
                if c and 'fn' in c:
                    out.append(c['fn'])
        return out

    def closures_created(self):
        out = []
        for i, j, s_ in self.assigns():
            rv = s_['rv']
            if rv['k'] == 'agg' and rv.get('agg') in ('closure', 'coroutine'):
                out.append(ID2DEF.get(rv.get('closure_id'), rv['closure']))
        return out

    def src_line(self, line):
        return Facts.source_line(self.file, line)


class Facts:
    _src_cache = {}
    repo = '/repo'

    def __init__(self, directory):
        self.dir = directory
        self.crates = {}
        self.bodies = {}
        self.adts = {}
        self.impls = []
        self.cfg = {}
        files = sorted(f for f in os.listdir(directory) if f.endswith('.json'))
        if not files:
            raise RuntimeError('no fact files in ' + directory)
        for f in files:
            d = json.load(open(os.path.join(directory, f)))
            cr = d['crate']
            self.crates[cr] = d
            self.cfg[cr] = d['cfg']
            for b in d['bodies']:
                self.bodies[b['def']] = Body(b, cr)
            for a in d['adts']:
                self.adts[a['def']] = a
            for im in d['impls']:
                im['crate'] = cr
                self.impls.append(im)
        self.register()
        self.by_id = {}
        for k, b in self.bodies.items():
            if b.d.get('id'):
                self.by_id[b.d['id']] = k
        self.register()
        # trait item -> implementing defs (class hierarchy fallback); keyed by crate-independent id
        self.trait_impls = collections.defaultdict(list)
        self.trait_impls_by_id = collections.defaultdict(list)
        for im in self.impls:
            for it in im['items']:
                if it.get('trait_item'):
                    self.trait_impls[it['trait_item']].append((it['def'], im))
                if it.get('trait_item_id'):
                    self.trait_impls_by_id[it['trait_item_id']].append((it['def'], im))
        self._cg = None
        self._rcg = None

    def register(self):
        """make this fact base the one that Call.name / symex constants resolve against"""
        import symex as _symex
        _symex.PROMOTED.clear()
        _symex._PROMOTED_CACHE.clear()
        _symex.BODIES.clear()
        _symex.CLOSURE_FIELDS.clear()
        _symex.NO_INLINE.clear()
        _symex.BODIES.update(self.bodies)
        _symex.ADTS.clear()
        _symex.ADTS.update(self.adts)
        for k, b in self.bodies.items():
            if b.kind == 'Promoted':
                _symex.PROMOTED[k] = b
        ID2DEF.clear()
        for k, b in self.bodies.items():
            if b.d.get('id'):
                ID2DEF[b.d['id']] = k

    @classmethod
    def source_line(cls, file, line):
        path = file if os.path.isabs(file) else os.path.join(cls.repo, file)
        if path not in cls._src_cache:
            try:
                cls._src_cache[path] = open(path, encoding='utf-8', errors='replace').read().split('\n')
            except OSError:
                cls._src_cache[path] = []
        ls = cls._src_cache[path]
        return ls[line - 1].strip() if 0 < line <= len(ls) else ''

    # -- lookup
    def find(self, pattern, crate=None):
        """bodies whose def path matches the regex (search)"""
        rx = re.compile(pattern)
        return [b for k, b in self.bodies.items() if rx.search(k) and (crate is None or b.crate == crate)]

    def one(self, pattern, crate=None):
        r = self.find(pattern, crate)
        if len(r) != 1:
            raise Missing('expected exactly one body for /%s/, found %d: %s' % (pattern, len(r), [b.defp for b in r][:6]))
        return r[0]

    def bodies_in_module(self, prefix):
        return [b for k, b in self.bodies.items() if k.startswith(prefix)]

    def closures_of(self, body):
        """all closure bodies nested (transitively) in body"""
        out = []
        for k, b in self.bodies.items():
            if b.kind == 'Closure' and b.d.get('root') == (body.d.get('root') or body.defp) and k.startswith(body.defp + '::'):
                out.append(b)
        return out

    # -- call graph
    def callee_targets(self, fn):
        """workspace bodies a call to fn may run (resolved, or class-hierarchy over impls)"""
        if fn is None:
            return []
        if fn.get('res'):
            if fn.get('res_id') in self.by_id:
                return [self.by_id[fn['res_id']]]
            if fn['res'] in self.bodies:
                return [fn['res']]
            # resolved to an external / shim item
            return []
        out = []
        d = fn['def']
        if fn.get('id') in self.by_id:     # trait default body / plain fn
            out.append(self.by_id[fn['id']])
        elif d in self.bodies:
            out.append(d)
        for (impl_def, im) in self.trait_impls_by_id.get(fn.get('id'), []):
            if impl_def in self.bodies and impl_def not in out:
                out.append(impl_def)
        return out

    def callgraph(self):
        if self._cg is not None:
            return self._cg
        cg = {}
        for k, b in self.bodies.items():
            es = set()
            for c in b.calls():
                for t in self.callee_targets(c.fn):
                    es.add(t)
            for fn in b.fn_consts():
                for t in self.callee_targets(fn):
                    es.add(t)
            for cl in b.closures_created():
                if cl in self.bodies:
                    es.add(cl)
            cg[k] = es
        self._cg = cg
        return cg

    def rev_callgraph(self):
        if self._rcg is None:
            r = collections.defaultdict(set)
            for k, es in self.callgraph().items():
                for e in es:
                    r[e].add(k)
            self._rcg = r
        return self._rcg

    def external_callees(self, body):
        """(crate, path) of callees with no workspace body, incl. unresolved trait calls"""
        out = set()
        for c in body.calls():
            if c.fn is None:
                continue
            if not self.callee_targets(c.fn):
                out.add((c.callee_crate, c.callee))
        return out

    def reach(self, start, pred=None):
        """set of workspace bodies reachable from start def (inclusive)"""
        cg = self.callgraph()
        seen = {start}
        st = [start]
        while st:
            x = st.pop()
            for y in cg.get(x, ()):
                if y not in seen:
                    seen.add(y)
                    st.append(y)
        return seen


class Missing(Exception):
    """an anchor the rule needs is not in the fact base -> INDETERMINATE"""
