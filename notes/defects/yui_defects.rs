// Demonstrations of the genuine defects D1-D4 (DESIGN.md §5) against the real code.
// Copy to <repo>/yui/tests/defects.rs and run `cargo test -p yui --test defects --offline`:
// every test fails on the pinned tree and passes after the `fix:` commits.
use num_bigint::BigInt;
use yui::bitseq::{Bit, BitSeq};
use yui::{DivRound, EucRing, GaussInt, Ratio};

#[test]
fn d1_div_round_beyond_2_pow_53() {
    // (2^60 + 1) / 1 must be 2^60 + 1; f64 rounds it to 2^60
    let a: i64 = (1 << 60) + 1;
    assert_eq!(a.div_round(&1), a);
    // 40-digit BigInt
    let b: BigInt = "1000000000000000000000000000000000000001".parse().unwrap();
    assert_eq!(b.div_round(&BigInt::from(1)), b);
}

#[test]
fn d2_ratio_order_consistent_with_eq() {
    let p: i64 = (1 << 60) + 1;
    let q: i64 = 1 << 60;
    let x = Ratio::new(p, 3);
    let y = Ratio::new(q, 3);
    assert_ne!(x, y);
    assert_eq!(x.cmp(&y), std::cmp::Ordering::Greater);
}

#[test]
fn d3_gcd_normalised_regardless_of_order() {
    type G = GaussInt<i64>;
    let a = G::new(-2, 0);
    let b = G::new(4, 0);
    let n = G::new(2, 0);
    assert_eq!(G::gcd(&b, &a), n);
    assert_eq!(G::gcd(&a, &b), n);
    let (d, s, t) = G::gcdx(&a, &b);
    assert_eq!(d, n);
    assert_eq!(&s * &a + &t * &b, d);
}

#[test]
fn d4_bitseq_length_64() {
    let mut b = BitSeq::empty();
    for _ in 0..64 { b.push(Bit::Bit1); }
    assert_eq!(b.len(), 64);
    assert_eq!(b.weight(), 64);
    let o = BitSeq::ones(64);
    assert_eq!(o, b);
    assert!(b.sub(64) == b);
    assert!(b.is_sub(&b));
}

#[test]
#[should_panic]
fn d4_bitseq_push_over_capacity_rejected() {
    let mut b = BitSeq::empty();
    for _ in 0..64 { b.push(Bit::Bit0); }
    b.push(Bit::Bit0); // must be rejected, not silently give len 65
}
