// D5 (C10): copy to yui-matrix/tests/hnf_norm.rs; fails before 16df899, passes after.
use yui_matrix::dense::Mat;
use yui_matrix::dense::lll::lll_hnf;
#[test]
fn one_row() {
    let a = Mat::from_data((1,1), [-5i64]);
    let (h, p, pinv) = lll_hnf(&a, [true, true]);
    assert_eq!(h, Mat::from_data((1,1), [5i64]));
    assert_eq!(p.clone().unwrap() * a.clone(), h);
    assert!((p.unwrap() * pinv.unwrap()).is_id());
}
#[test]
fn rot() {
    let a = Mat::from_data((2,2), [0i64,1,-1,0]);
    let (h, p, pinv) = lll_hnf(&a, [true, true]);
    assert_eq!(p.clone().unwrap() * a.clone(), h);
    assert!((p.unwrap() * pinv.unwrap()).is_id());
    assert_eq!(h, Mat::from_data((2,2), [1i64,0,0,1]));
}
