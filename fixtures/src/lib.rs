//! Positive controls for the static checks in /verif/rules: every module contains ONE seeded
//! violation (`bad_*`) next to a conforming twin (`good_*`). The same driver analyses this crate
//! on every run; an engine that stops flagging its control makes the check fail closed.
#![allow(dead_code)]

pub mod exact {
    // E2: a float on the data path of an "exact" operation
    pub fn bad_add(a: i64, b: i64) -> i64 {
        ((a as f64) + (b as f64)) as i64
    }
    pub fn good_add(a: i64, b: i64) -> i64 {
        a + b
    }
    // a float that is only logged / returned as a float is fine
    pub fn good_ratio(a: i64, b: i64) -> f64 {
        a as f64 / b as f64
    }
}

pub mod euc {
    // E3: gcd must be normalised on every return path
    pub trait Ring: Clone {
        fn is_zero(&self) -> bool;
        fn normalizing_unit(&self) -> Self;
        fn is_one(&self) -> bool;
        fn mul(&self, o: &Self) -> Self;
        fn rem(&self, o: &Self) -> Self;
        fn zero() -> Self;
        fn into_normalized(self) -> Self {
            let u = self.normalizing_unit();
            if u.is_one() { self } else { self.mul(&u) }
        }
    }
    pub trait EucRing: Ring {
        fn divides(&self, y: &Self) -> bool {
            !self.is_zero() && y.rem(self).is_zero()
        }
        // seeded: early return of the un-normalised argument
        fn gcd(x: &Self, y: &Self) -> Self {
            if x.is_zero() && y.is_zero() { return Self::zero() }
            if x.divides(y) { return x.clone() }
            let (mut x, mut y) = (x.clone(), y.clone());
            while !y.is_zero() {
                let r = x.rem(&y);
                (x, y) = (y, r);
            }
            x.into_normalized()
        }
        fn lcm(x: &Self, y: &Self) -> Self {
            let g = Self::gcd(x, y);
            x.mul(&y.rem(&g)).into_normalized()
        }
    }
}

pub mod bits {
    // E4: packed bit sequence, invariant len <= 64 and width(val) <= len
    #[derive(Clone, Copy, PartialEq, Eq)]
    pub struct Bits { val: u64, len: usize }

    impl Bits {
        pub fn new(val: u64, len: usize) -> Self {
            assert!(len <= 64);
            assert!(val <= Self::mask(len));
            Self { val, len }
        }
        fn mask(n: usize) -> u64 {
            if n >= 64 { u64::MAX } else { (1 << n) - 1 }
        }
        // seeded: shift by len (== 64 allowed) and no capacity check
        pub fn bad_push(&mut self, b: bool) {
            if b { self.val |= 1 << self.len; }
            self.len += 1;
        }
        pub fn good_push(&mut self, b: bool) {
            assert!(self.len < 64);
            if b { self.val |= 1 << self.len; }
            self.len += 1;
        }
    }
}

pub mod norm {
    // E1: a map that must not store zero values
    use std::collections::HashMap;
    #[derive(Clone, Default, PartialEq)]
    pub struct Sparse { data: HashMap<u32, i64> }

    impl Sparse {
        pub fn new() -> Self { Self { data: HashMap::new() } }
        pub fn clean(&mut self) { self.data.retain(|_, v| *v != 0) }
        // seeded: dirties the map and returns without clean()
        pub fn bad_add(&mut self, k: u32, v: i64) {
            *self.data.entry(k).or_insert(0) += v;
        }
        pub fn good_add(&mut self, k: u32, v: i64) {
            *self.data.entry(k).or_insert(0) += v;
            self.clean()
        }
    }
}

pub mod locks {
    // E5: L2 re-acquisition under a live guard, L1 rayon under a RefCell borrow
    use std::cell::RefCell;
    use std::sync::Mutex;
    use rayon::prelude::*;

    pub fn bad_relock(m: &Mutex<Vec<u32>>, x: u32) {
        // the scrutinee's guard lives to the end of the match
        match m.lock().unwrap().contains(&x) {
            false => m.lock().unwrap().push(x),
            true => ()
        }
    }
    pub fn good_relock(m: &Mutex<Vec<u32>>, x: u32) {
        if !m.lock().unwrap().contains(&x) {
            m.lock().unwrap().push(x)
        }
    }
    pub fn bad_rayon_under_borrow(c: &RefCell<Vec<u32>>, xs: &[u32]) -> u32 {
        let mut b = c.borrow_mut();
        let s: u32 = xs.par_iter().map(|x| x + 1).sum();
        b.push(s);
        s
    }
    pub fn good_rayon_then_borrow(c: &RefCell<Vec<u32>>, xs: &[u32]) -> u32 {
        let s: u32 = xs.par_iter().map(|x| x + 1).sum();
        c.borrow_mut().push(s);
        s
    }
}

pub mod dense {
    pub mod mat {
        #[derive(Clone, Default)]
        pub struct Mat { rows: Vec<Vec<i64>> }
        impl Mat {
            pub fn swap_rows(&mut self, i: usize, j: usize) { self.rows.swap(i, j) }
            pub fn swap_cols(&mut self, i: usize, j: usize) { for r in self.rows.iter_mut() { r.swap(i, j) } }
        }
    }
    // E6: every row operation on `target` must be mirrored into p and (inverted) into pinv
    pub mod calc {
        use super::mat::Mat;
        pub struct Calc { target: Mat, p: Option<Mat>, pinv: Option<Mat> }
        impl Calc {
            // seeded: pinv gets the row swap instead of the column swap
            pub fn bad_swap_rows(&mut self, i: usize, j: usize) {
                self.target.swap_rows(i, j);
                if let Some(p) = self.p.as_mut() { p.swap_rows(i, j) }
                if let Some(pinv) = self.pinv.as_mut() { pinv.swap_rows(i, j) }
            }
            pub fn good_swap_rows(&mut self, i: usize, j: usize) {
                self.target.swap_rows(i, j);
                if let Some(p) = self.p.as_mut() { p.swap_rows(i, j) }
                if let Some(pinv) = self.pinv.as_mut() { pinv.swap_cols(i, j) }
            }
        }
    }
}
